"""Fail-closed translation of the parameter validators of /repo/device_kit to Gallina (coq/Gen/Validators.v).

For every target (a property setter, a `_validate_param` helper, the guard block of an `__init__`, the nested
`set_cbound` of `Device.cbounds`) the body must be made of the whitelisted statements below; it is turned into

  Definition <Class>_<name>_accepts <context> <arguments> : bool   conjunction, in source order, of the negated raise-conditions
  Definition <Class>_<name>_stored  <context> <arguments> : T      what a setter stores / a helper returns

Whitelisted statements: a docstring; `if <cond>: raise ValueError(...)`; `x = <expr>` (a let); a call of a sibling
validator as a statement or as the right-hand side of an assignment; the `try: x[0], x[1] / except TypeError: x = (x, x)`
idiom; `Device.bounds.fset(self, <arg>)`; `super().__init__(...)`; assignments to attributes of `self`
(not read by any later guard); `self.cbounds.append(x)`; `return <expr>`.
Whitelisted expressions: numeric constants, names, `self.<attr>` / `<obj>.<attr>` declared in the target's context,
`len(self)`, `len(x)`, `x.ndim`, `np.array(x)`, `hasattr(x, '__len__')`, `x[i]`, `x[a:b].sum()`, comparison chains,
`and` / `or` / `not`, `(elementwise comparison).all()` / `.any()`, `x is None` / `x is not None`, `x [not] in [str, ...]`.
Everything else raises Unsupported('translator:<file>:<line>:<node>:<why>').
The context and the Python-side type of every argument are declared in TARGETS (a wrong declaration makes
the generated text ill-typed, i.e. the Coq build fails: also fail-closed).
"""
import ast
import os
import sys

# py2coq.py is normally the running script (module __main__): take its Unsupported class, so that main() catches ours
_main = sys.modules.get('__main__')
if getattr(_main, 'Unsupported', None) is not None and str(getattr(_main, '__file__', '')).endswith('py2coq.py'):
  _p = _main
else:
  import py2coq as _p
Unsupported, fail, find_class, find_method, num_const = _p.Unsupported, _p.fail, _p.find_class, _p.find_method, _p.num_const

COQTYPE = {'num': 'A', 'nat': 'nat', 'param': 'param A', 'vec': 'list A', 'pv': 'pv A', 'rc': 'rcv A',
           'optpair': '(option A * option A)', 'opt': 'option A', 'optvec': 'option (list A)', 'str': 'string',
           'strs': 'list string', 'bool': 'bool', 'lens': 'list nat'}

# (file, class, member, how, context, arguments, stores)
#   how: 'setter' | 'method' | 'static' | 'init' | 'nested:<outer setter>'
#   context: [(python expression text, kind, coq name)]   arguments: [(python name, kind)]  (kind 'opaque': not looked at)
N = ('len(self)', 'nat', 'n')
TARGETS = [
  ('cdevice.py', 'CDevice', 'a', 'setter', [], [('a', 'num')], True),
  ('cdevice2.py', 'CDevice2', '_validate_param', 'method', [N], [('p', 'param')], False),
  ('cdevice2.py', 'CDevice2', 'p_h', 'setter', [N, ('self.p_l', 'param', 'self_p_l')], [('v', 'param')], True),
  ('cdevice2.py', 'CDevice2', 'p_l', 'setter', [N, ('self.p_h', 'param', 'self_p_h')], [('v', 'param')], True),
  ('idevice.py', 'IDevice', '_validate_param', 'static', [], [('p', 'param'), ('length', 'nat')], False),
  ('idevice.py', 'IDevice', 'a', 'setter', [N], [('a', 'param')], True),
  ('idevice.py', 'IDevice', 'b', 'setter', [N], [('b', 'param')], True),
  ('idevice.py', 'IDevice', 'c', 'setter', [N], [('c', 'param')], True),
  ('idevice2.py', 'IDevice2', '_validate_param', 'method', [N], [('p', 'param')], False),
  ('idevice2.py', 'IDevice2', 'p_h', 'setter', [N, ('self.p_l', 'param', 'self_p_l')], [('v', 'param')], True),
  ('idevice2.py', 'IDevice2', 'p_l', 'setter', [N, ('self.p_h', 'param', 'self_p_h')], [('v', 'param')], True),
  ('gdevice.py', 'GDevice', 'bounds', 'setter', [('self.hbounds', 'vec', 'self_hbounds')], [('bounds', 'opaque')], False),
  ('pvdevice.py', 'PVDevice', 'bounds', 'setter', [('self.hbounds', 'vec', 'self_hbounds')], [('bounds', 'opaque')], False),
  ('sdevice.py', 'SDevice', 'c1', 'setter', [('self.c2', 'num', 'self_c2')], [('c1', 'num')], True),
  ('sdevice.py', 'SDevice', 'c2', 'setter', [('self.c1', 'num', 'self_c1')], [('c2', 'num')], True),
  ('sdevice.py', 'SDevice', 'c3', 'setter', [], [('c3', 'num')], True),
  ('sdevice.py', 'SDevice', 'capacity', 'setter', [], [('capacity', 'num')], True),
  ('sdevice.py', 'SDevice', 'start', 'setter', [], [('start', 'num')], True),
  ('sdevice.py', 'SDevice', 'reserve', 'setter', [], [('reserve', 'num')], True),
  ('sdevice.py', 'SDevice', 'damage_depth', 'setter', [], [('damage_depth', 'num')], True),
  ('sdevice.py', 'SDevice', 'efficiency', 'setter', [], [('efficiency', 'num')], True),
  ('sdevice.py', 'SDevice', 'sustainment', 'setter', [], [('sustainment', 'num')], True),
  ('sdevice.py', 'SDevice', 'rate_clip', 'setter', [], [('rate_clip', 'rc')], True),
  ('tdevice.py', 'TDevice', '__init__', 'init', [N],
   [('id', 'opaque'), ('length', 'opaque'), ('bounds', 'opaque'), ('sustainment', 'num'), ('efficiency', 'num'),
    ('t_init', 'opaque'), ('t_optimal', 'opaque'), ('t_range', 'num'), ('t_external', 'vec'), ('c', 'param'), ('cbounds', 'opaque')], False),
  ('device.py', 'Device', 'set_cbound', 'nested:cbounds',
   [('self.lbounds', 'vec', 'self_lbounds'), ('self.hbounds', 'vec', 'self_hbounds')], [('cbound', 'pv')], False),
  ('deviceset.py', 'DeviceSet', '__init__', 'init', [('re.match(id)', 'bool', 'id_ok')],
   [('id', 'opaque'), ('devices', 'lens'), ('sbounds', 'opaque')], False),
  ('mfdeviceset.py', 'MFDeviceSet', '__init__', 'init',
   [('device.lbounds', 'vec', 'device_lbounds'), ('device.hbounds', 'vec', 'device_hbounds')],
   [('device', 'opaque'), ('flows', 'strs')], False),
  ('tworatiomfdeviceset.py', 'TwoRatioMFDeviceSet', '__init__', 'init', [],
   [('device', 'opaque'), ('flows', 'strs'), ('ratios', 'optvec'), ('constraint_type', 'str')], False),
]

# validators other targets may call: python callee text -> (target key, how the arguments map)
CALLEES = {
  ('CDevice2', 'self._validate_param'): ('CDevice2', '_validate_param'),
  ('IDevice2', 'self._validate_param'): ('IDevice2', '_validate_param'),
  ('*', 'IDevice._validate_param'): ('IDevice', '_validate_param'),
}


def coq_name(cls, member):
  return '%s_%s' % (cls, member.strip('_') if member != '__init__' else 'init')


class Tx:
  def __init__(self, fname, cls, member, ctx, args):
    self.fname, self.cls, self.member = fname, cls, member
    self.ctx = {py: (kind, name) for py, kind, name in ctx}
    self.env = {}
    for a, k in args:
      self.env[a] = (k, a)
    self.bound = {}          # ast.dump(expr) -> (kind, text): expressions proven not-None by an enclosing `and`
    self.assigned_attrs = set()
    self.fresh = 0
    self.patterns = []

  def fail(self, node, why):
    fail(self.fname, node, why)

  # ---------------------------------------------------------------- expressions -> (kind, text)
  def dotted(self, e):
    if isinstance(e, ast.Name):
      return e.id
    if isinstance(e, ast.Attribute):
      d = self.dotted(e.value)
      return None if d is None else d + '.' + e.attr
    return None

  def as_num(self, node, kt):
    k, t = kt
    if k == 'const':
      return num_const(self.fname, node, t)
    if k == 'num':
      return t
    if k == 'pv':
      return '(pv_num %s)' % t
    self.fail(node, 'a number is expected here, found kind %s' % k)

  def as_nat(self, node, kt):
    k, t = kt
    if k == 'const':
      if isinstance(t, int) and not isinstance(t, bool) and t >= 0:
        return str(t)
      self.fail(node, 'natural-number constant expected')
    if k == 'nat':
      return t
    self.fail(node, 'a length is expected here, found kind %s' % k)

  def ex(self, e):
    key = ast.dump(e)
    if key in self.bound:
      return self.bound[key]
    if isinstance(e, ast.Constant):
      v = e.value
      if v is None:
        return ('none', 'None')
      if isinstance(v, bool):
        self.fail(e, 'bool constant')
      if isinstance(v, (int, float)):
        return ('const', v)
      if isinstance(v, str):
        return ('str', '"%s"%%string' % v.replace('"', '""'))
      self.fail(e, 'constant %r' % (v,))
    if isinstance(e, ast.Name):
      if e.id in self.env:
        k, t = self.env[e.id]
        if k == 'opaque':
          self.fail(e, 'argument %s is declared opaque but is inspected' % e.id)
        return (k, t)
      self.fail(e, 'free name %s' % e.id)
    if isinstance(e, ast.Attribute):
      d = self.dotted(e)
      if d is not None and d in self.ctx:
        base = d.split('.')[1] if d.startswith('self.') else None
        if base and (base in self.assigned_attrs or '_' + base in self.assigned_attrs):
          self.fail(e, 'guard reads self.%s after the method assigned it' % base)
        k, n = self.ctx[d]
        return (k, n)
      if e.attr == 'ndim':
        k, t = self.ex(e.value)
        if k == 'param':
          return ('ndim', t)
      self.fail(e, 'attribute %s is not in the declared context' % (d or e.attr))
    if isinstance(e, ast.UnaryOp):
      if isinstance(e.op, ast.Not):
        return ('bool', '(negb %s)' % self.boolean(e.operand))
      if isinstance(e.op, ast.USub):
        k, t = self.ex(e.operand)
        if k == 'const':
          return ('const', -t)
        return ('num', '(- %s)' % self.as_num(e, (k, t)))
      self.fail(e, 'unary operator')
    if isinstance(e, ast.BinOp) and isinstance(e.op, (ast.Add, ast.Sub, ast.Mult)):
      a = self.as_num(e, self.ex(e.left))
      b = self.as_num(e, self.ex(e.right))
      return ('num', '(%s %s %s)' % (a, {ast.Add: '+', ast.Sub: '-', ast.Mult: '*'}[type(e.op)], b))
    if isinstance(e, ast.BoolOp):
      return ('bool', self.boolop(e))
    if isinstance(e, ast.Compare):
      return self.compare(e)
    if isinstance(e, ast.Subscript):
      return self.subscript(e)
    if isinstance(e, ast.Call):
      return self.call(e)
    self.fail(e, 'expression')

  def boolean(self, e):
    k, t = self.ex(e)
    if k == 'bool':
      return t
    if k == 'nat':          # truthiness of a length
      return '(negb (Nat.eqb %s 0))' % t
    if k == 'pbool':
      self.fail(e, 'truth value of an elementwise comparison (needs .all() / .any())')
    self.fail(e, 'a condition is expected here, found kind %s' % k)

  def boolop(self, e):
    op = '&&' if isinstance(e.op, ast.And) else '||'
    vals = list(e.values)

    def go(i):
      v = vals[i]
      last = i == len(vals) - 1
      # `X is not None and <rest>`: bind X as a present value in <rest>
      if isinstance(e.op, ast.And) and not last and isinstance(v, ast.Compare) and len(v.ops) == 1 and isinstance(v.ops[0], ast.IsNot) \
         and isinstance(v.comparators[0], ast.Constant) and v.comparators[0].value is None:
        k, t = self.ex(v.left)
        if k in ('opt', 'optvec'):
          self.fresh += 1
          name = 'present%d' % self.fresh
          key = ast.dump(v.left)
          saved = self.bound.get(key)
          self.bound[key] = ('num' if k == 'opt' else 'vec', name)
          rest = go(i + 1)
          if saved is None:
            del self.bound[key]
          else:
            self.bound[key] = saved
          return '(match %s with None => false | Some %s => %s end)' % (t, name, rest)
      t = self.boolean(v)
      if last:
        return t
      return '(%s %s %s)' % (t, op, go(i + 1))
    return go(0)

  CMP_NUM = {ast.Lt: '(%s <? %s)', ast.LtE: '(%s <=? %s)', ast.Eq: '(%s =? %s)', ast.NotEq: '(negb (%s =? %s))'}
  CMP_NAT = {ast.Lt: '(Nat.ltb %s %s)', ast.LtE: '(Nat.leb %s %s)', ast.Eq: '(Nat.eqb %s %s)', ast.NotEq: '(negb (Nat.eqb %s %s))'}

  def cmp1(self, node, op, a, b):
    """one comparison a op b of two translated operands -> (kind, text)"""
    ka, kb = a[0], b[0]
    numlike = ('const', 'num', 'pv')
    if isinstance(op, (ast.Is, ast.IsNot)):
      if kb != 'none' or ka not in ('opt', 'optvec', 'pv'):
        self.fail(node, '`is` is supported only as `<optional value> is [not] None`')
      t = '(pv_is_none %s)' % a[1] if ka == 'pv' else '(match %s with None => true | Some _ => false end)' % a[1]
      return ('bool', t if isinstance(op, ast.Is) else '(negb %s)' % t)
    if isinstance(op, (ast.In, ast.NotIn)):
      if ka != 'str' or kb != 'strlist':
        self.fail(node, '`in` is supported only for a string in a list of string constants')
      t = '(existsb (String.eqb %s) %s)' % (a[1], b[1])
      return ('bool', t if isinstance(op, ast.In) else '(negb %s)' % t)
    swap = isinstance(op, (ast.Gt, ast.GtE))
    opn = {ast.Gt: ast.Lt, ast.GtE: ast.LtE}.get(type(op), type(op))
    if opn not in self.CMP_NUM:
      self.fail(node, 'comparison operator %s' % type(op).__name__)
    if ka == 'natvec' and kb == 'nat' and isinstance(op, ast.Eq):
      return ('pbool', ('forallb', 'existsb', '(fun x => Nat.eqb x %s)' % b[1], a[1]))
    if ka in ('nat', 'ndim') or kb in ('nat', 'ndim'):
      if ka == 'ndim' or kb == 'ndim':
        nd, other = (a, b) if ka == 'ndim' else (b, a)
        if other[0] != 'const' or other[1] != 0 or not isinstance(op, ast.Eq):
          self.fail(node, 'ndim is supported only as `v.ndim == 0`')
        return ('bool', '(param_is_scalar %s)' % nd[1])
      x, y = self.as_nat(node, a), self.as_nat(node, b)
      if swap:
        x, y = y, x
      return ('bool', self.CMP_NAT[opn] % (x, y))
    if ka in numlike and kb in numlike:
      if ka == 'const' and kb == 'const':
        self.fail(node, 'comparison of two constants')
      x, y = self.as_num(node, a), self.as_num(node, b)
      if swap:
        x, y = y, x
      return ('bool', self.CMP_NUM[opn] % (x, y))
    # elementwise: at least one side is a vector / scalar-or-vector parameter
    elem = ('param', 'vec')
    if ka in elem or kb in elem:
      if ka in elem and kb in elem:
        if ka != 'param' or kb != 'param':
          self.fail(node, 'elementwise comparison of two vectors')
        body = self.CMP_NUM[opn] % (('y', 'x') if swap else ('x', 'y'))
        return ('pbool', ('param_all2', 'param_any2', '(fun x y => %s)' % body, '%s %s' % (a[1], b[1])))
      vec, other, vec_left = (a, b, True) if ka in elem else (b, a, False)
      o = self.as_num(node, other)
      x, y = ('x', o) if vec_left else (o, 'x')
      if swap:
        x, y = y, x
      body = self.CMP_NUM[opn] % (x, y)
      fa, fe = ('param_all', 'param_any') if vec[0] == 'param' else ('forallb', 'existsb')
      return ('pbool', (fa, fe, '(fun x => %s)' % body, vec[1]))
    self.fail(node, 'comparison of kinds %s and %s' % (ka, kb))

  def compare(self, e):
    operands = [e.left] + list(e.comparators)
    tr = []
    for o in operands:
      if isinstance(o, (ast.List, ast.Tuple, ast.Set)) and all(isinstance(x, ast.Constant) and isinstance(x.value, str) for x in o.elts):
        tr.append(('strlist', '[%s]' % '; '.join('"%s"%%string' % x.value.replace('"', '""') for x in o.elts)))
      else:
        tr.append(self.ex(o))
    parts = [self.cmp1(e, op, tr[i], tr[i + 1]) for i, op in enumerate(e.ops)]
    if len(parts) == 1:
      return parts[0]
    if any(k != 'bool' for k, _ in parts):
      self.fail(e, 'chained elementwise comparison')
    return ('bool', '(' + ' && '.join(t for _, t in parts) + ')')

  def subscript(self, e):
    k, t = self.ex(e.value)
    s = e.slice
    if isinstance(s, ast.Slice):
      if k != 'vec' or s.step is not None or s.lower is None or s.upper is None:
        self.fail(e, 'slice (only vector[lower:upper])')
      lo, hi = self.ex(s.lower), self.ex(s.upper)
      if lo[0] != 'pv' or hi[0] != 'pv':
        self.fail(e, 'slice bounds must be dynamically typed values')
      return ('vec', '(slice (pv_slice_lo (length %s) %s) (pv_slice_hi (length %s) %s) %s)' % (t, lo[1], t, hi[1], t))
    if isinstance(s, ast.Constant) and isinstance(s.value, int) and not isinstance(s.value, bool) and s.value >= 0:
      i = s.value
      if k == 'pv':
        return ('pv', '(pv_nth %d %s)' % (i, t))
      if k == 'optpair' and i in (0, 1):
        return ('opt', '(%s %s)' % ('fst' if i == 0 else 'snd', t))
      self.fail(e, 'constant index into kind %s' % k)
    self.fail(e, 'subscript')

  def call(self, e):
    fn = e.func
    if e.keywords:
      self.fail(e, 'keyword arguments')
    d = self.dotted(fn)
    if d == 'len' and len(e.args) == 1 and isinstance(e.args[0], ast.Subscript) and isinstance(e.args[0].slice, ast.Constant) \
       and e.args[0].slice.value == 0 and self.ex(e.args[0].value)[0] == 'lens':
      return ('nat', '(hd 0 %s)' % self.ex(e.args[0].value)[1])       # len(devices[0])
    if d == 'len' and len(e.args) == 1:
      a = e.args[0]
      if isinstance(a, ast.Name) and a.id == 'self':
        if 'len(self)' not in self.ctx:
          self.fail(e, 'len(self) is not in the declared context')
        if '_length' in self.assigned_attrs:
          self.fail(e, 'len(self) read after the method assigned self._length')
        return ('nat', self.ctx['len(self)'][1])
      k, t = self.ex(a)
      if k == 'param':
        return ('nat', '(param_len %s)' % t)
      if k in ('vec', 'strs'):
        return ('nat', '(length %s)' % t)
      if k == 'pv':
        return ('nat', '(pv_len %s)' % t)
      self.fail(e, 'len of kind %s' % k)
    # np.vectorize(lambda a: len(a))(np.array(devices)): the vector of the devices' horizon lengths
    if isinstance(fn, ast.Call) and self.dotted(fn.func) == 'np.vectorize' and len(fn.args) == 1 and not fn.keywords \
       and isinstance(fn.args[0], ast.Lambda) and len(fn.args[0].args.args) == 1 and isinstance(fn.args[0].body, ast.Call) \
       and self.dotted(fn.args[0].body.func) == 'len' and len(fn.args[0].body.args) == 1 \
       and isinstance(fn.args[0].body.args[0], ast.Name) and fn.args[0].body.args[0].id == fn.args[0].args.args[0].arg and len(e.args) == 1:
      k, t = self.ex(e.args[0])
      if k == 'lens':
        return ('natvec', t)
      self.fail(e, 'vectorised len over kind %s' % k)
    # re.match(<constant pattern>, id): an opaque verdict supplied by the context
    if d == 're.match' and len(e.args) == 2 and isinstance(e.args[0], ast.Constant) and isinstance(e.args[0].value, str) \
       and isinstance(e.args[1], ast.Name):
      key = 're.match(%s)' % e.args[1].id
      if key in self.ctx:
        self.patterns.append(e.args[0].value)
        return ('bool', self.ctx[key][1])
      self.fail(e, 're.match on %s is not in the declared context' % e.args[1].id)
    if d == 'np.array' and len(e.args) == 1:
      k, t = self.ex(e.args[0])
      if k in ('param', 'vec', 'lens'):
        return (k, t)
      self.fail(e, 'np.array of kind %s' % k)
    if d == 'hasattr' and len(e.args) == 2 and isinstance(e.args[1], ast.Constant) and e.args[1].value == '__len__':
      k, t = self.ex(e.args[0])
      if k == 'pv':
        return ('bool', '(pv_has_len %s)' % t)
      self.fail(e, 'hasattr on kind %s' % k)
    if isinstance(fn, ast.Attribute) and fn.attr in ('all', 'any') and not e.args:
      k, t = self.ex(fn.value)
      if k != 'pbool':
        self.fail(e, '.%s() of kind %s' % (fn.attr, k))
      fa, fe, lam, args = t
      f = fa if fn.attr == 'all' else fe
      if f == 'param_any2':
        self.fail(e, '.any() of a two-parameter comparison')
      return ('bool', '(%s %s %s)' % (f, lam, args))
    if isinstance(fn, ast.Attribute) and fn.attr == 'sum' and not e.args:
      k, t = self.ex(fn.value)
      if k == 'vec':
        return ('num', '(vsum %s)' % t)
      self.fail(e, '.sum() of kind %s' % k)
    self.fail(e, 'call of %s' % (d or type(fn).__name__))

  # ---------------------------------------------------------------- validator calls
  def validator_call(self, e):
    """e is a Call; returns (accepts text, returned (kind, text)) if it calls a known validator, else None."""
    if not isinstance(e, ast.Call) or e.keywords:
      return None
    d = self.dotted(e.func)
    tgt = CALLEES.get((self.cls, d)) or CALLEES.get(('*', d))
    if tgt is None:
      return None
    spec = [t for t in TARGETS if (t[1], t[2]) == tgt][0]
    ctx, args = spec[4], spec[5]
    if len(e.args) != len(args):
      self.fail(e, 'wrong number of arguments to %s' % d)
    texts = []
    for py, kind, name in ctx:       # the callee's context is the caller's (same self)
      if py not in self.ctx:
        self.fail(e, 'callee needs %s, which is not in the declared context' % py)
      texts.append(self.ctx[py][1])
    for a, (an, ak) in zip(e.args, args):
      k, t = self.ex(a)
      if ak == 'nat':
        t = self.as_nat(a, (k, t))
      elif k != ak:
        self.fail(a, 'argument of kind %s where %s is expected' % (k, ak))
      texts.append(t)
    base = coq_name(*tgt)
    at = ' '.join(texts)
    return '(%s_accepts %s)' % (base, at), (args[0][1], '(%s_stored %s)' % (base, at))

  # ---------------------------------------------------------------- statements
  def is_raise_valueerror(self, s):
    return isinstance(s, ast.Raise) and s.cause is None and isinstance(s.exc, ast.Call) and \
        isinstance(s.exc.func, ast.Name) and s.exc.func.id == 'ValueError'

  def rc_idiom(self, s):
    """try: x[0], x[1]   except TypeError: x = (x, x)    -> name x, else None"""
    if not isinstance(s, ast.Try) or s.orelse or s.finalbody or len(s.body) != 1 or len(s.handlers) != 1:
      return None
    b, h = s.body[0], s.handlers[0]
    if not (isinstance(b, ast.Expr) and isinstance(b.value, ast.Tuple) and len(b.value.elts) == 2):
      return None
    names = []
    for i, el in enumerate(b.value.elts):
      if not (isinstance(el, ast.Subscript) and isinstance(el.value, ast.Name) and isinstance(el.slice, ast.Constant) and el.slice.value == i):
        return None
      names.append(el.value.id)
    x = names[0]
    if names[1] != x or not (isinstance(h.type, ast.Name) and h.type.id == 'TypeError' and h.name is None and len(h.body) == 1):
      return None
    a = h.body[0]
    if not (isinstance(a, ast.Assign) and len(a.targets) == 1 and isinstance(a.targets[0], ast.Name) and a.targets[0].id == x
            and isinstance(a.value, ast.Tuple) and len(a.value.elts) == 2
            and all(isinstance(v, ast.Name) and v.id == x for v in a.value.elts)):
      return None
    return x

  def skippable(self, s):
    """construction code of an __init__: no raise / try / return inside, no validator call, no rebinding of a name a guard can see"""
    for n in ast.walk(s):
      if isinstance(n, (ast.Raise, ast.Try, ast.Return, ast.Global, ast.Nonlocal, ast.Delete, ast.Assert)):
        return False
      if isinstance(n, ast.Name) and isinstance(n.ctx, (ast.Store, ast.Del)) and n.id in self.env:
        return False
      if isinstance(n, ast.Call) and self.validator_call(n) is not None:
        return False
    return True

  def stmts(self, body, want_store):
    """-> (accepts text, stored (kind, text) or None)"""
    if not body:
      return 'true', None
    s, rest = body[0], body[1:]
    init = self.member == '__init__'
    # docstring
    if isinstance(s, ast.Expr) and isinstance(s.value, ast.Constant) and isinstance(s.value.value, str):
      return self.stmts(rest, want_store)
    # guard
    if isinstance(s, ast.If) and not s.orelse and len(s.body) == 1 and self.is_raise_valueerror(s.body[0]):
      c = self.boolean(s.test)
      acc, st = self.stmts(rest, want_store)
      return '(negb %s && %s)' % (c, acc), st
    # pair-or-single idiom
    x = self.rc_idiom(s)
    if x is not None:
      if self.env.get(x, (None,))[0] != 'rc':
        self.fail(s, 'the pair-or-single idiom is applied to %s, which is not declared as such a value' % x)
      old = self.env[x]
      self.env[x] = ('optpair', x)
      acc, st = self.stmts(rest, want_store)
      self.env[x] = old
      wrap = lambda t: '(let %s := rc_norm %s in %s)' % (x, old[1], t)
      return wrap(acc), (None if st is None else (st[0], wrap(st[1])))
    # local assignment
    if isinstance(s, ast.Assign) and len(s.targets) == 1 and isinstance(s.targets[0], ast.Name) and not (init and self.skippable(s) and s.targets[0].id not in self.env and self.validator_call(s.value) is None and not self.translatable(s.value)):
      name = s.targets[0].id
      vc = self.validator_call(s.value)
      a0 = None
      if vc is not None:
        a0, (k, t) = vc
      elif isinstance(s.value, ast.Call) and self.dotted(s.value.func) == 'np.array' and len(s.value.args) == 1 \
          and isinstance(s.value.args[0], ast.Name) and self.env.get(s.value.args[0].id, (None,))[0] == 'opaque':
        # `bounds = np.array(bounds)` on an argument the guards do not look at
        old = self.env.get(name)
        self.env[name] = ('opaque', name)
        r = self.stmts(rest, want_store)
        if old is None:
          del self.env[name]
        else:
          self.env[name] = old
        return r
      else:
        k, t = self.ex(s.value)
        if k == 'const':
          k, t = 'num', num_const(self.fname, s, t)
        if k not in COQTYPE:
          self.fail(s, 'assignment of a value of kind %s' % k)
      old = self.env.get(name)
      self.env[name] = (k, name)
      acc, st = self.stmts(rest, want_store)
      if old is None:
        del self.env[name]
      else:
        self.env[name] = old
      wrap = lambda u: '(let %s := %s in %s)' % (name, t, u)
      acc = wrap(acc)
      if a0 is not None:
        acc = '(%s && %s)' % (a0, acc)
      return acc, (None if st is None else (st[0], wrap(st[1])))
    # call statements
    if isinstance(s, ast.Expr) and isinstance(s.value, ast.Call):
      c = s.value
      vc = self.validator_call(c)
      if vc is not None:
        acc, st = self.stmts(rest, want_store)
        return '(%s && %s)' % (vc[0], acc), st
      d = self.dotted(c.func)
      if d == 'Device.bounds.fset' and len(c.args) == 2 and all(isinstance(a, ast.Name) for a in c.args) and c.args[0].id == 'self':
        return self.stmts(rest, want_store)       # base-class bounds setter (modelled by Model/Validate.v)
      if init and isinstance(c.func, ast.Attribute) and c.func.attr == '__init__' and isinstance(c.func.value, ast.Call) \
         and isinstance(c.func.value.func, ast.Name) and c.func.value.func.id == 'super':
        return self.stmts(rest, want_store)       # (recorded by Gen/Signatures.v)
      if d == 'self.cbounds.append' and len(c.args) == 1 and not rest:
        return 'true', None
    # assignment to an attribute of self
    if isinstance(s, ast.Assign) and len(s.targets) == 1:
      d = self.dotted(s.targets[0])
      if d and d.startswith('self.') and d.count('.') == 1:
        attr = d.split('.')[1]
        vc = self.validator_call(s.value)
        stored = None
        acc0 = None
        if vc is not None:
          acc0 = vc[0]
          if want_store and attr == '_' + want_store:
            stored = vc[1]
        elif want_store and attr == '_' + want_store:
          k, t = self.ex(s.value)
          if k == 'const':
            k, t = 'num', num_const(self.fname, s, t)
          stored = (k, t)
        elif not self.skippable(s):
          self.fail(s, 'assignment to self.%s' % attr)
        self.assigned_attrs.add(attr)
        acc, st = self.stmts(rest, want_store)
        if stored is not None and st is not None:
          self.fail(s, 'field stored twice')
        if acc0 is not None:
          acc = '(%s && %s)' % (acc0, acc)
        return acc, (stored if stored is not None else st)
    if isinstance(s, ast.Return):
      if rest:
        self.fail(s, 'statements after return')
      if s.value is None:
        return 'true', None
      return 'true', self.ex(s.value)
    if init and self.skippable(s):
      return self.stmts(rest, want_store)         # construction code
    self.fail(s, 'statement')

  def translatable(self, e):
    try:
      self.ex(e)
      return True
    except Unsupported:
      return False


def locate(tree, fname, cls, member, how):
  c = find_class(tree, cls)
  if c is None:
    raise Unsupported('translator:%s:?:ClassDef:class %s not found' % (os.path.basename(fname), cls))
  if how == 'setter':
    m = find_method(c, member, setter=True)
  elif how.startswith('nested:'):
    outer = find_method(c, how.split(':')[1], setter=True)
    if outer is None:
      raise Unsupported('translator:%s:%s:FunctionDef:setter %s.%s not found' % (os.path.basename(fname), c.lineno, cls, how.split(':')[1]))
    m = None
    for n in outer.body:
      if isinstance(n, ast.FunctionDef) and n.name == member:
        m = n
  else:
    m = find_method(c, member)
  if m is None:
    raise Unsupported('translator:%s:%s:FunctionDef:%s.%s not found' % (os.path.basename(fname), c.lineno, cls, member))
  return c, m


def check_getter(fname, c, member):
  """the property getter must return the field the setter stores"""
  g = find_method(c, member, setter=False)
  if g is None:
    fail(fname, c, 'no getter for %s' % member)
  body = [s for s in g.body if not (isinstance(s, ast.Expr) and isinstance(s.value, ast.Constant))]
  ok = len(body) == 1 and isinstance(body[0], ast.Return) and isinstance(body[0].value, ast.Attribute) \
      and isinstance(body[0].value.value, ast.Name) and body[0].value.value.id == 'self' and body[0].value.attr == '_' + member
  if not ok:
    fail(fname, g, 'getter of %s does not return self._%s' % (member, member))


def gen_validators(repo):
  out = ['(* GENERATED by translator/validators_tx.py from device_kit/*.py -- do not edit. *)',
         'From Coq Require Import String ZArith List Bool Arith.',
         'From DK Require Import Num Vec.',
         'From DK.Model Require Import Leaf PyVal.',
         'Import ListNotations.',
         'Section Validators.',
         'Context {A : Type} `{Num A}.',
         'Local Open Scope num_scope.',
         '']
  trees = {}
  names = []
  for f, cls, member, how, ctx, args, stores in TARGETS:
    fname = os.path.join(repo, 'device_kit', f)
    if fname not in trees:
      trees[fname] = ast.parse(open(fname).read(), fname)
    c, m = locate(trees[fname], fname, cls, member, how)
    a = m.args
    pyargs = [x.arg for x in a.args]
    if how in ('setter', 'method', 'init'):
      if not pyargs or pyargs[0] != 'self':
        fail(fname, m, 'first parameter is not self')
      pyargs = pyargs[1:]
    if a.vararg or a.kwonlyargs or a.posonlyargs or (a.kwarg and how != 'init'):
      fail(fname, m, 'argument list')
    if pyargs != [n for n, _ in args]:
      fail(fname, m, 'parameters %s differ from the declared %s' % (pyargs, [n for n, _ in args]))
    tx = Tx(fname, cls, member, ctx, args)
    acc, st = tx.stmts(m.body, member if stores else None)
    base = coq_name(cls, member)
    binders = ['(%s : %s)' % (name, COQTYPE[kind]) for _, kind, name in ctx] + \
              ['(%s : %s)' % (n, COQTYPE[k]) for n, k in args if k != 'opaque']
    b = (' ' + ' '.join(binders)) if binders else ''
    out.append('(* %s: %s.%s, line %d *)' % (f, cls, member, m.lineno))
    out.append('Definition %s_accepts%s : bool :=\n  %s.' % (base, b, acc))
    for k, pat in enumerate(tx.patterns):
      out.append('Definition %s_pattern%d : string := "%s"%%string.' % (base, k, pat.replace('"', '""')))
    names.append(base + '_accepts')
    if stores or how in ('method', 'static'):
      if st is None:
        fail(fname, m, 'nothing is stored / returned')
      if st[0] not in COQTYPE:
        fail(fname, m, 'stored value of kind %s' % st[0])
      out.append('Definition %s_stored%s : %s :=\n  %s.' % (base, b, COQTYPE[st[0]], st[1]))
      names.append(base + '_stored')
    if stores:
      check_getter(fname, c, member)
    out.append('')
  out.append('End Validators.')
  out.append('Definition generated_validators : list string := [%s]%%string.' % '; '.join('"%s"' % n for n in names))
  return '\n'.join(out) + '\n'
