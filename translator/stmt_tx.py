"""Statement-level translator: Python methods with control flow (if / elif / raise / return / while / for over enumerate) over a typed
whitelist of NumPy expressions  ->  Gallina in the `pres` monad of Model/Projection.v (POk | PValueError | PMaxIter | POutOfFuel).

  gen_projection(repo) -> text of coq/Gen/Projection.v      (device_kit/projection/projection.py)

Expressions are translated in continuation-passing style so that a fallible call (a region's project / is_in) anywhere inside an
expression is sequenced with `pbind` in Python's evaluation order, and `and` / `or` short-circuit exactly as Python does.
Like the class-level translator it degrades gracefully: a method that leaves the whitelist is emitted as an alias of the hand-written
model term and listed in `<file>_untranslated`, so a harmless refactoring falls back to the correspondence (tie H) instead of raising
an alarm, while a semantic edit inside the whitelist changes the generated text and breaks the `Gen = Model` proofs.

Types: N nat, S scalar, I integer literal, B bool, V vector, M matrix, OV "the int 0 or a vector", CUBE (n,2) table, PAIR, SHAPE (r,c),
FV / FB a region's project / is_in, LFV list of region projections.
"""
import ast
import os
from fractions import Fraction


class Unsupported(Exception):
  pass


def U(node, why):
  raise Unsupported('%s:%s:%s' % (getattr(node, 'lineno', '?'), type(node).__name__, why))


COQTYPE = {'N': 'nat', 'S': 'A', 'B': 'bool', 'V': 'list A', 'M': 'list (list A)', 'OV': 'option (list A)', 'CUBE': 'list (A * A)',
           'SHAPE': 'nat * nat', 'FV': 'list A -> pres (list A)', 'FB': 'list A -> pres bool', 'LFV': 'list (list A -> pres (list A))'}
RAISES = {'ValueError': 'PValueError', 'Exception': 'PMaxIter'}


def val(term, ty):
  return ('val', term, ty)


def scal_of_int(k):
  return 'n0' if k == 0 else 'n1' if k == 1 else '(- n1)' if k == -1 else '(nofZ (%d))' % k


class Tx:
  def __init__(self, tree, cfg):
    self.classes = {c.name: c for c in tree.body if isinstance(c, ast.ClassDef)}
    self.cfg = cfg
    self.cnt = 0

  def fresh(self):
    self.cnt += 1
    return 'v%d' % self.cnt

  # ---- class structure
  def mro(self, cls):
    out = [cls]
    while True:
      node = self.classes.get(out[-1])
      if node is None or not node.bases:
        return out
      b = node.bases[0]
      if not isinstance(b, ast.Name) or b.id not in self.classes:
        return out
      out.append(b.id)

  def find_method(self, cls, name):
    for c in self.mro(cls):
      for n in self.classes[c].body:
        if isinstance(n, ast.FunctionDef) and n.name == name and not n.decorator_list:
          return c, n
    return None, None

  @staticmethod
  def is_abstract(m):
    body = [s for s in m.body if not (isinstance(s, ast.Expr) and isinstance(s.value, ast.Constant))]
    return len(body) == 1 and isinstance(body[0], ast.Raise) and 'NotImplementedError' in ast.unparse(body[0])

  def class_const(self, cls, name):
    for c in self.mro(cls):
      for n in self.classes[c].body:
        if isinstance(n, ast.Assign) and len(n.targets) == 1 and isinstance(n.targets[0], ast.Name) and n.targets[0].id == name:
          return n.value
    return None

  def params_of(self, obj):
    """Coq argument text for the generated definitions of the object's class."""
    _, cls, attrs = obj
    return ' '.join(self.arg_of(attrs[a]) for a in self.cfg[cls]['order'])

  def arg_of(self, entry):
    if entry[0] == 'val':
      return entry[1]
    if entry[0] == 'obj':
      return self.params_of(entry)
    if entry[0] == 'areg':
      U(ast.Pass(), 'abstract region as argument')

  # ---- expressions (CPS): k(term, type) -> Coq text
  def coerce(self, t, ty, want, node):
    if ty == want:
      return t
    if ty == 'I' and want == 'S':
      return scal_of_int(int(t))
    if ty == 'I' and want == 'N':
      return '%s%%nat' % t if int(t) >= 0 else U(node, 'negative nat')
    U(node, 'type %s where %s is needed' % (ty, want))

  def ex(self, e, env, k):
    if isinstance(e, ast.Constant):
      if isinstance(e.value, bool):
        return k('true' if e.value else 'false', 'B')
      if isinstance(e.value, int):
        return k(str(e.value), 'I')
      U(e, 'constant')
    if isinstance(e, ast.Name):
      if e.id in env and env[e.id][0] == 'val':
        return k(env[e.id][1], env[e.id][2])
      U(e, 'name %s' % e.id)
    if isinstance(e, ast.Attribute):
      ent = self.lookup(e, env)
      if ent is not None and ent[0] == 'val':
        return k(ent[1], ent[2])
      if e.attr == 'shape':
        return self.ex(e.value, env, lambda t, ty: k(t, 'SHAPEOF') if ty == 'M' else U(e, '.shape of %s' % ty))
      U(e, 'attribute %s' % e.attr)
    if isinstance(e, ast.UnaryOp) and isinstance(e.op, ast.USub):
      def ku(t, ty):
        if ty == 'I':
          return k(str(-int(t)), 'I')
        if ty == 'S':
          return k('(- %s)' % t, 'S')
        if ty == 'V':
          return k('(vopp %s)' % t, 'V')
        U(e, 'negation of %s' % ty)
      return self.ex(e.operand, env, ku)
    if isinstance(e, ast.UnaryOp) and isinstance(e.op, ast.Not):
      def kn(t, ty):
        if ty != 'B':
          U(e, 'not of %s' % ty)
        return k({'true': 'false', 'false': 'true'}.get(t, '(negb %s)' % t), 'B')
      return self.ex(e.operand, env, kn)
    if isinstance(e, ast.BoolOp):
      return self.boolop(e.op, e.values, env, k, e)
    if isinstance(e, ast.Compare):
      return self.compare(e, env, k)
    if isinstance(e, ast.BinOp):
      return self.ex(e.left, env, lambda a, ta: self.ex(e.right, env, lambda b, tb: k(*self.binop(e, a, ta, b, tb))))
    if isinstance(e, ast.Subscript):
      return self.subscript(e, env, k)
    if isinstance(e, ast.Call):
      return self.call(e, env, k)
    if isinstance(e, ast.ListComp):
      return self.listcomp(e, env, k)
    U(e, 'expression')

  def lookup(self, e, env):
    """self.attr / self._low / self._low._normal -> env entry or None"""
    if isinstance(e, ast.Name):
      return env.get(e.id)
    if isinstance(e, ast.Attribute):
      base = self.lookup(e.value, env)
      if base is not None and base[0] == 'obj':
        return base[2].get(e.attr)
    return None

  def boolop(self, op, values, env, k, node):
    first, rest = values[0], values[1:]
    if len(values) > 1:
      try:
        ts = [self.pure(v, env, 'B') for v in values]
        return k('(%s)' % (' && ' if isinstance(op, ast.And) else ' || ').join(ts), 'B')
      except Unsupported:
        pass
    if not rest:
      return self.ex(first, env, lambda t, ty: k(t, ty) if ty == 'B' else U(node, 'boolean operand of type %s' % ty))
    # isinstance(NAME, int) or REST : in REST the name is an array
    if isinstance(op, ast.Or) and isinstance(first, ast.Call) and isinstance(first.func, ast.Name) and first.func.id == 'isinstance' and \
       len(first.args) == 2 and isinstance(first.args[0], ast.Name) and isinstance(first.args[1], ast.Name) and first.args[1].id == 'int':
      nm = first.args[0].id
      if nm in env and env[nm][0] == 'val' and env[nm][2] == 'OV':
        env2 = dict(env)
        env2[nm] = val(nm, 'V')
        return '(match %s with None => %s | Some %s => %s end)' % (env[nm][1], k('true', 'B'), nm, self.boolop(op, rest, env2, k, node))
      U(first, 'isinstance')

    def kf(t, ty):
      if ty != 'B':
        U(node, 'boolean operand of type %s' % ty)
      stop, go = ('false', 'true') if isinstance(op, ast.And) else ('true', 'false')
      if t == stop:
        return k(stop, 'B')
      if t == go:
        return self.boolop(op, rest, env, k, node)
      a, b = self.boolop(op, rest, env, k, node), k(stop, 'B')
      return '(if %s then %s else %s)' % ((t, a, b) if isinstance(op, ast.And) else (t, b, a))
    return self.ex(first, env, kf)

  def compare(self, e, env, k):
    if len(e.ops) != 1:
      U(e, 'comparison chain')
    op, l, r = e.ops[0], e.left, e.comparators[0]

    def kc(a, ta, b, tb):
      if 'SHAPEOF' in (ta, tb):
        if ta == 'SHAPEOF' and tb == 'SHAPE' and isinstance(op, (ast.Eq, ast.NotEq)):
          t = '(mshape_ok (fst %s) (snd %s) %s)' % (b, b, a)
          return k(t if isinstance(op, ast.Eq) else '(negb %s)' % t, 'B')
        U(e, 'shape comparison')
      if ta == 'I' and tb == 'I':
        U(e, 'constant comparison')
      ty = 'N' if 'N' in (ta, tb) else 'S'
      a, b = self.coerce(a, ta, ty, e), self.coerce(b, tb, ty, e)
      if ty == 'N':
        t = {ast.Eq: '(Nat.eqb %s %s)', ast.NotEq: '(negb (Nat.eqb %s %s))', ast.Lt: '(Nat.ltb %s %s)', ast.LtE: '(Nat.leb %s %s)'}
        if type(op) in t:
          return k(t[type(op)] % (a, b), 'B')
        if isinstance(op, ast.Gt):
          return k('(Nat.ltb %s %s)' % (b, a), 'B')
        if isinstance(op, ast.GtE):
          return k('(Nat.leb %s %s)' % (b, a), 'B')
      else:
        t = {ast.Eq: '(%s =? %s)', ast.NotEq: '(negb (%s =? %s))', ast.Lt: '(%s <? %s)', ast.LtE: '(%s <=? %s)'}
        if type(op) in t:
          return k(t[type(op)] % (a, b), 'B')
        if isinstance(op, ast.Gt):
          return k('(%s <? %s)' % (b, a), 'B')
        if isinstance(op, ast.GtE):
          return k('(%s <=? %s)' % (b, a), 'B')
      U(e, 'comparison operator')
    return self.ex(l, env, lambda a, ta: self.ex(r, env, lambda b, tb: kc(a, ta, b, tb)))

  def binop(self, e, a, ta, b, tb):
    ops = {ast.Add: '+', ast.Sub: '-', ast.Mult: '*', ast.Div: '/'}
    if type(e.op) not in ops:
      U(e, 'operator')
    o = ops[type(e.op)]
    if ta == 'I' and tb == 'I':
      U(e, 'integer arithmetic')
    if ta == 'I':
      a, ta = (scal_of_int(int(a)), 'S') if tb != 'N' else (a + '%nat', 'N')
    if tb == 'I':
      b, tb = (scal_of_int(int(b)), 'S') if ta != 'N' else (b + '%nat', 'N')
    if ta == 'S' and tb == 'S':
      return '(%s %s %s)' % (a, o, b), 'S'
    if ta == 'V' and tb == 'V':
      return '(%s %s %s)' % ({'+': 'vadd', '-': 'vsub', '*': 'vmul'}.get(o) or U(e, 'vector division'), a, b), 'V'
    if ta == 'V' and tb == 'OV' and o == '+':
      return '(ovadd %s %s)' % (a, b), 'V'
    if ta == 'V' and tb == 'S':
      return '(map (fun x => x %s %s) %s)' % (o, b, a), 'V'
    if ta == 'S' and tb == 'V':
      return '(map (fun x => %s %s x) %s)' % (a, o, b), 'V'
    U(e, 'operand types %s %s %s' % (ta, o, tb))

  def subscript(self, e, env, k):
    sl = e.slice
    # m[i, :] and m[:, i]
    if isinstance(sl, ast.Tuple) and len(sl.elts) == 2:
      a, b = sl.elts
      full = lambda x: isinstance(x, ast.Slice) and x.lower is None and x.upper is None and x.step is None
      if full(b) and not full(a):
        return self.ex(e.value, env, lambda m, tm: self.ex(a, env, lambda i, ti:
                       k('(getrow %s %s)' % (self.coerce(i, ti, 'N', e), m), 'V') if tm == 'M' else U(e, 'row of %s' % tm)))
      if full(a) and not full(b):
        return self.ex(e.value, env, lambda m, tm: self.ex(b, env, lambda i, ti:
                       k('(getcol %s %s)' % (self.coerce(i, ti, 'N', e), m), 'V') if tm == 'M' else U(e, 'column of %s' % tm)))
      U(e, 'subscript')

    def ks(v, tv, i, ti):
      if tv == 'CUBE':
        return k('(nth %s %s (n0, n0))' % (self.coerce(i, ti, 'N', e), v), 'PAIR')
      if tv == 'PAIR' and ti == 'I' and i in ('0', '1'):
        return k('(%s %s)' % ('fst' if i == '0' else 'snd', v), 'S')
      if tv == 'V':
        return k('(nth %s %s n0)' % (self.coerce(i, ti, 'N', e), v), 'S')
      U(e, 'subscript of %s' % tv)
    return self.ex(e.value, env, lambda v, tv: self.ex(sl, env, lambda i, ti: ks(v, tv, i, ti)))

  def listcomp(self, e, env, k):
    """[elt for i, p in enumerate(V)]  (elt pure scalar)"""
    if len(e.generators) != 1 or e.generators[0].ifs:
      U(e, 'comprehension')
    g = e.generators[0]
    it = g.iter
    if isinstance(it, ast.Call) and isinstance(it.func, ast.Name) and it.func.id == 'enumerate' and len(it.args) == 1 and \
       isinstance(g.target, ast.Tuple) and len(g.target.elts) == 2 and all(isinstance(x, ast.Name) for x in g.target.elts):
      i, p = g.target.elts[0].id, g.target.elts[1].id

      def kv(v, tv):
        if tv != 'V':
          U(e, 'enumerate of %s' % tv)
        env2 = dict(env)
        env2[i], env2[p] = val(i, 'N'), val(p, 'S')
        body = self.pure(e.elt, env2, 'S')
        return k("(map (fun ip => let i := fst ip in let p := snd ip in %s) (combine (seq 0 (length %s)) %s))" % (body, v, v)
                 if (i, p) == ('i', 'p') else
                 "(map (fun ip => let %s := fst ip in let %s := snd ip in %s) (combine (seq 0 (length %s)) %s))" % (i, p, body, v, v), 'V')
      return self.ex(it.args[0], env, kv)
    U(e, 'comprehension')

  def pure(self, e, env, want):
    """an expression without fallible calls, of the wanted type"""
    box = []

    def k(t, ty):
      box.append(self.coerce(t, ty, want, e))
      return '@@PURE@@'
    r = self.ex(e, env, k)
    if r != '@@PURE@@' or len(box) != 1:
      U(e, 'fallible or branching expression where a pure one is needed')
    return box[0]

  def call(self, e, env, k):
    f = e.func
    if e.keywords and not (isinstance(f, ast.Attribute) and f.attr == 'array'):
      U(e, 'keyword arguments')
    if isinstance(f, ast.Name):
      if f.id == 'len' and len(e.args) == 1:
        return self.length(e.args[0], env, k, e)
      if f.id in ('max', 'min') and len(e.args) == 2:
        return self.ex(e.args[0], env, lambda a, ta: self.ex(e.args[1], env, lambda b, tb:
                       k('(%s %s %s)' % ('nmax' if f.id == 'max' else 'nmin', self.coerce(a, ta, 'S', e), self.coerce(b, tb, 'S', e)), 'S')))
      U(e, 'call of %s' % f.id)
    if not isinstance(f, ast.Attribute):
      U(e, 'call')
    # np.*
    if isinstance(f.value, ast.Name) and f.value.id == 'np':
      if f.attr == 'array' and len(e.args) == 1:
        kws = {kw.arg: ast.unparse(kw.value) for kw in e.keywords}
        if kws not in ({}, {'dtype': 'float'}):
          U(e, 'np.array keywords')
        return self.ex(e.args[0], env, lambda t, ty: k(t, ty) if ty in ('V', 'M', 'CUBE') else U(e, 'np.array of %s' % ty))
      if f.attr == 'abs' and len(e.args) == 1:
        return self.ex(e.args[0], env, lambda t, ty: k('(map nabs %s)' % t, 'V') if ty == 'V' else U(e, 'np.abs of %s' % ty))
      U(e, 'np.%s' % f.attr)
    if isinstance(f.value, ast.Attribute) and isinstance(f.value.value, ast.Name) and f.value.value.id == 'np' and f.value.attr == 'linalg' and \
       f.attr == 'norm' and len(e.args) == 1:
      return self.ex(e.args[0], env, lambda t, ty: k('(nrm %s)' % t, 'S') if ty == 'V' else U(e, 'norm of %s' % ty))
    # (X <= Y).all()
    if f.attr == 'all' and not e.args and isinstance(f.value, ast.Compare) and len(f.value.ops) == 1 and isinstance(f.value.ops[0], ast.LtE):
      c = f.value
      return self.ex(c.left, env, lambda a, ta: self.ex(c.comparators[0], env, lambda b, tb:
                     k('(forallb (fun d => d <=? %s) %s)' % (self.coerce(b, tb, 'S', e), a), 'B') if ta == 'V' else U(e, '.all() of %s' % ta)))
    # X.sum()
    if f.attr == 'sum' and not e.args:
      return self.ex(f.value, env, lambda t, ty: k('(vsum %s)' % t, 'S') if ty == 'V' else U(e, '.sum() of %s' % ty))
    # method calls on self, sub-objects, abstract regions and loop variables holding a region's project
    tgt = self.lookup(f.value, env)
    if tgt is not None and tgt[0] == 'val' and tgt[2] == 'FV' and f.attr == 'project' and len(e.args) == 1:
      return self.ex(e.args[0], env, lambda a, ta: self.bind('(%s %s)' % (tgt[1], self.coerce(a, ta, 'V', e)), 'V', k))
    if tgt is not None and tgt[0] == 'areg' and f.attr in ('project', 'is_in') and len(e.args) == 1:
      fn, rt = (tgt[1], 'V') if f.attr == 'project' else (tgt[2], 'B')
      return self.ex(e.args[0], env, lambda a, ta: self.bind('(%s %s)' % (fn, self.coerce(a, ta, 'V', e)), rt, k))
    if tgt is not None and tgt[0] == 'obj':
      return self.method_call(tgt, f.attr, e.args, env, k, e)
    # V.dot(V)
    if f.attr == 'dot' and len(e.args) == 1:
      return self.ex(f.value, env, lambda a, ta: self.ex(e.args[0], env, lambda b, tb:
                     k('(dot %s %s)' % (a, b), 'S') if (ta, tb) == ('V', 'V') else U(e, 'dot of %s, %s' % (ta, tb))))
    U(e, 'call of .%s' % f.attr)

  def bind(self, callterm, rt, k):
    v = self.fresh()
    body = k(v, rt)
    if body == '(POk %s)' % v:
      return callterm
    return '(pbind %s (fun %s => %s))' % (callterm, v, body)

  def method_term(self, obj, name, node):
    """Coq function for obj.name (still to be applied to the arguments), its argument types and result type."""
    _, cls, attrs = obj
    dcls, m = self.find_method(cls, name)
    if m is not None and self.is_abstract(m):
      m = None
    if m is None:
      # abstract method supplied as a parameter (ConvexRegion.project)
      ent = attrs.get('.' + name)
      if ent is not None:
        return ent[1], ['V'], ent[2][1:] if ent[2] in ('FV', 'FB') else U(node, 'abstract method type')
      U(node, 'method %s.%s' % (cls, name))
    sig = self.cfg[dcls]['methods'].get(name)
    if sig is None:
      U(node, 'method %s.%s is not a translation target' % (dcls, name))
    if dcls == cls:
      return '(%s_%s %s)' % (dcls, name, self.params_of(obj)), sig[0], sig[1]
    # inherited from the abstract base: its parameters are tol and the object's own project
    if dcls == 'ConvexRegion':
      pt, _, _ = self.method_term(obj, 'project', node)
      return '(ConvexRegion_%s %s %s)' % (name, attrs['tol'][1], pt), sig[0], sig[1]
    U(node, 'inherited method %s.%s' % (dcls, name))

  def method_call(self, obj, name, args, env, k, node):
    fn, ats, rt = self.method_term(obj, name, node)
    if len(ats) != len(args) or len(args) != 1:
      U(node, 'arity of %s' % name)
    return self.ex(args[0], env, lambda a, ta: self.bind('(%s %s)' % (fn, self.coerce(a, ta, ats[0], node)), rt[1:] if rt.startswith('P') else rt, k))

  def length(self, a, env, k, node):
    ent = self.lookup(a, env)
    if ent is not None and ent[0] == 'obj':
      # inline __len__
      _, m = self.find_method(ent[1], '__len__')
      body = [s for s in (m.body if m else []) if not (isinstance(s, ast.Expr) and isinstance(s.value, ast.Constant))]
      if len(body) == 1 and isinstance(body[0], ast.Return):
        return self.ex(body[0].value, {'self': ent}, k)
      U(node, '__len__ of %s' % ent[1])

    def kl(t, ty):
      if ty in ('V', 'CUBE', 'M', 'LFV'):
        return k('(length %s)' % t, 'N')
      U(node, 'len of %s' % ty)
    return self.ex(a, env, kl)

  # ---- statements: Coq text of type pres T; `fall` is what happens when control falls off the end of the block
  def stmts(self, body, env, fall, rtype):
    if not body:
      if fall is None:
        U(ast.Pass(), 'falls off the end')
      return fall(env)
    s, rest = body[0], body[1:]
    if isinstance(s, ast.Expr) and isinstance(s.value, ast.Constant) and isinstance(s.value.value, str):
      return self.stmts(rest, env, fall, rtype)
    if isinstance(s, ast.Return) and s.value is not None:
      def kr(t, ty):
        return '(POk %s)' % self.coerce(t, ty, rtype, s)
      r = self.ex(s.value, env, kr)
      # pbind c (fun v => POk v)  ->  c
      import re
      m = re.fullmatch(r'\(pbind (\(.*\)) \(fun (v\d+) => \(POk (v\d+)\)\)\)', r)
      if m and m.group(2) == m.group(3) and m.group(2) not in m.group(1) and balanced(m.group(1)):
        return m.group(1)
      return r
    if isinstance(s, ast.Raise):
      exc = s.exc
      name = exc.func.id if isinstance(exc, ast.Call) and isinstance(exc.func, ast.Name) else exc.id if isinstance(exc, ast.Name) else None
      if name in RAISES:
        return RAISES[name]
      U(s, 'raise')
    if isinstance(s, ast.If):
      def ki(t, ty):
        if ty != 'B':
          U(s, 'test of type %s' % ty)
        if t == 'true':
          return self.stmts(s.body + rest, env, fall, rtype)
        if t == 'false':
          return self.stmts(s.orelse + rest, env, fall, rtype)
        return '(if %s then %s else %s)' % (t, self.stmts(s.body + rest, env, fall, rtype), self.stmts(s.orelse + rest, env, fall, rtype))
      return self.ex(s.test, env, ki)
    if isinstance(s, ast.Assign):
      if all(isinstance(t, ast.Name) for t in s.targets):
        def ka(t, ty):
          env2 = dict(env)
          out = ''
          for tg in s.targets:
            if ty == 'I':
              env2[tg.id] = val(t, 'I')        # an integer literal: its use decides (0 as "no array yet", as a counter, as a scalar)
            else:
              env2[tg.id] = val(tg.id, ty)
              out += 'let %s := %s in ' % (tg.id, t)
          return '(%s%s)' % (out, self.stmts(rest, env2, fall, rtype))
        return self.ex(s.value, env, ka)
      if len(s.targets) == 1 and isinstance(s.targets[0], ast.Subscript) and isinstance(s.targets[0].value, ast.Name):
        tg = s.targets[0]
        nm = tg.value.id
        sl = tg.slice
        full = lambda x: isinstance(x, ast.Slice) and x.lower is None and x.upper is None and x.step is None
        if nm in env and env[nm][0] == 'val' and env[nm][2] == 'M' and isinstance(sl, ast.Tuple) and len(sl.elts) == 2:
          a, b = sl.elts
          if full(b) and not full(a):
            fn, ix = 'setrow', a
          elif full(a) and not full(b):
            fn, ix = 'setcol', b
          else:
            U(s, 'subscript assignment')

          def kv(v, tv):
            i = self.pure(ix, env, 'N')
            return '(let %s := %s %s %s %s in %s)' % (nm, fn, i, self.coerce(v, tv, 'V', s), env[nm][1], self.stmts(rest, env, fall, rtype))
          return self.ex(s.value, env, kv)
      U(s, 'assignment')
    if isinstance(s, ast.AugAssign) and isinstance(s.target, ast.Name) and isinstance(s.op, ast.Add) and \
       isinstance(s.value, ast.Constant) and s.value.value == 1 and s.target.id in env and env[s.target.id][2] == 'N':
      nm = s.target.id
      return '(let %s := S %s in %s)' % (nm, env[nm][1], self.stmts(rest, env, fall, rtype))
    if isinstance(s, ast.While) and not s.orelse:
      return self.while_(s, rest, env, fall, rtype)
    if isinstance(s, ast.For) and not s.orelse:
      return self.for_(s, rest, env, fall, rtype)
    U(s, 'statement')

  @staticmethod
  def assigned(body):
    out = []
    for n in body:
      for x in ast.walk(n):
        if isinstance(x, ast.Assign):
          for t in x.targets:
            nm = t.id if isinstance(t, ast.Name) else t.value.id if isinstance(t, ast.Subscript) and isinstance(t.value, ast.Name) else None
            if nm and nm not in out:
              out.append(nm)
        if isinstance(x, ast.AugAssign) and isinstance(x.target, ast.Name) and x.target.id not in out:
          out.append(x.target.id)
    return out

  def while_(self, s, rest, env, fall, rtype):
    """while cond: body   ->  structural recursion on explicit fuel (POutOfFuel when exhausted)"""
    if 'fuel' not in env:
      U(s, 'while loop in a method without a fuel parameter')
    state = [v for v in self.assigned(s.body) if v in env]
    if [v for v in self.assigned(s.body) if v not in env and self.used_after(v, s, rest)]:
      U(s, 'loop-local variable used after the loop')
    # types of the state: an integer literal 0 before the loop becomes a counter (+= 1) or "no array yet" (assigned an array)
    tys, init = {}, {}
    for v in state:
      t, ty = env[v][1], env[v][2]
      if ty == 'I':
        if t != '0':
          U(s, 'integer state %s' % v)
        counter = any(isinstance(x, ast.AugAssign) and isinstance(x.target, ast.Name) and x.target.id == v for n in s.body for x in ast.walk(n))
        tys[v], init[v] = ('N', '0%nat') if counter else ('OV', 'None')
      elif ty in ('V', 'N', 'S', 'M'):
        tys[v], init[v] = ty, t
      else:
        U(s, 'state variable %s of type %s' % (v, ty))
    env_in = dict(env)
    for v in state:
      env_in[v] = val(v, tys[v])
    env_in['fuel'] = val("fuel'", 'N')

    def pack(env_end):
      args = []
      for v in state:
        t, ty = env_end[v][1], env_end[v][2]
        if tys[v] == 'OV' and ty == 'V':
          t = '(Some %s)' % t
        elif ty != tys[v]:
          U(s, 'state variable %s changes type %s -> %s' % (v, tys[v], ty))
        args.append(t)
      return "(loop fuel' %s)" % ' '.join(args)

    def kc(t, ty):
      if ty != 'B':
        U(s, 'loop test of type %s' % ty)
      again = lambda: self.stmts(s.body, env_in, pack, rtype)
      done = lambda: self.stmts(rest, env_in, fall, rtype)
      if t == 'true':
        return again()
      if t == 'false':
        return done()
      return '(if %s then %s else %s)' % (t, again(), done())
    body = self.ex(s.test, env_in, kc)
    binders = ' '.join('(%s : %s)' % (v, COQTYPE[tys[v]]) for v in state)
    return ('((fix loop (fuel : nat) %s {struct fuel} : pres (%s) := match fuel with O => POutOfFuel | S fuel\' => %s end) %s %s)'
            % (binders, COQTYPE[rtype], body, env['fuel'][1], ' '.join(init[v] for v in state)))

  @staticmethod
  def used_after(v, s, rest):
    return any(isinstance(x, ast.Name) and x.id == v for n in rest for x in ast.walk(n))

  def for_(self, s, rest, env, fall, rtype):
    """for i, r in enumerate(<list of region projections>): body   ->  pfoldi over the list, the assigned variables as state"""
    it = s.iter
    if not (isinstance(it, ast.Call) and isinstance(it.func, ast.Name) and it.func.id == 'enumerate' and len(it.args) == 1 and
            isinstance(s.target, ast.Tuple) and len(s.target.elts) == 2 and all(isinstance(x, ast.Name) for x in s.target.elts)):
      U(s, 'for loop')
    i, r = s.target.elts[0].id, s.target.elts[1].id
    state = [v for v in self.assigned(s.body) if v in env]
    if len(state) != 1 or len(self.assigned(s.body)) != 1:
      U(s, 'for loop state %s' % self.assigned(s.body))
    st = state[0]
    sty = env[st][2]

    def kl(l, tl):
      if tl != 'LFV':
        U(s, 'enumerate of %s' % tl)
      env2 = dict(env)
      env2[i], env2[r], env2[st] = val(i, 'N'), val(r, 'FV'), val(st, sty)
      body = self.stmts(s.body, env2, lambda e_end: '(POk %s)' % e_end[st][1], sty)
      env3 = dict(env)
      env3[st] = val(st, sty)
      return '(pbind (pfoldi (fun (%s : nat) (%s : list A -> pres (list A)) (%s : %s) => %s) %s %s) (fun %s => %s))' % (
          i, r, st, COQTYPE[sty], body, l, env[st][1], st, self.stmts(rest, env3, fall, rtype))
    return self.ex(it.args[0], env, kl)


def balanced(s):
  d = 0
  for ch in s:
    d += ch == '('
    d -= ch == ')'
    if d < 0:
      return False
  return d == 0


# ---------------------------------------------------------------------------------------------------
# device_kit/projection/projection.py
# ---------------------------------------------------------------------------------------------------
def half_obj(prefix, tol='tol'):
  return ('obj', 'HalfSpace', {'_normal': val(prefix + 'normal', 'V'), '_offset': val(prefix + 'offset', 'S'), '_sign': val(prefix + 'sign', 'S'),
                               'tol': val(tol, 'S')})


PROJ_CFG = {
  # order: the attribute parameters of the generated definitions; methods: name -> (argument types, result type)
  'ConvexRegion': {'order': ['tol', '.project'], 'methods': {'is_in': (['V'], 'PB')},
                   'self': {'tol': val('tol', 'S'), '.project': val('project', 'FV')},
                   'decl': '(tol : A) (project : list A -> pres (list A))'},
  'HyperCube': {'order': ['_cube'], 'methods': {'project': (['V'], 'PV')},
                'self': {'_cube': val('cube', 'CUBE'), 'tol': val('tol', 'S')}, 'decl': '(cube : list (A * A))'},
  'HalfSpace': {'order': ['_normal', '_offset', '_sign'], 'methods': {'project': (['V'], 'PV')},
                'self': half_obj('')[2], 'decl': '(normal : list A) (offset sign : A)'},
  'Slice': {'order': ['tol', '_low', '_high'], 'methods': {'project': (['V'], 'PV'), 'is_in': (['V'], 'PB')},
            'self': {'tol': val('tol', 'S'), '_low': half_obj('l'), '_high': half_obj('h')},
            'decl': '(tol : A) (lnormal : list A) (loffset lsign : A) (hnormal : list A) (hoffset hsign : A)'},
  'Intersection': {'order': ['.pa', '.pb', '.ia', '.ib', '_maxiter', 'fuel'],
                   'methods': {'project': (['V'], 'PV'), 'is_in': (['V'], 'PB'), 'dykstra_project': (['V'], 'PV')},
                   'self': {'_a': ('areg', 'pa', 'ia'), '_b': ('areg', 'pb', 'ib'), '_maxiter': val('maxiter', 'N'),
                            '.pa': val('pa', 'FV'), '.pb': val('pb', 'FV'), '.ia': val('ia', 'FB'), '.ib': val('ib', 'FB'), 'fuel': val('fuel', 'N')},
                   'decl': '(pa pb : list A -> pres (list A)) (ia ib : list A -> pres bool) (maxiter fuel : nat)'},
  'List': {'order': ['_regions', '_axis', '_shape'], 'methods': {'project': (['M'], 'PM')},
           'self': {'_regions': val('projs', 'LFV'), '_axis': val('axis', 'N'), '_shape': val('shape', 'SHAPE')},
           'decl': '(projs : list (list A -> pres (list A))) (axis : nat) (shape : nat * nat)'},
}

# (class, method, parameter names:types, result type, fallback: the hand-written model term over the same binders)
PROJ_TARGETS = [
  ('ConvexRegion', 'is_in', ['point:V'], 'B', 'is_in_of tol project point'),
  ('HyperCube', 'project', ['point:V'], 'V', 'box_project cube point'),
  ('HalfSpace', 'project', ['point:V'], 'V', 'half_stored_project normal offset sign point'),
  ('Slice', 'project', ['p:V'], 'V', 'slab_stored_project tol lnormal loffset lsign hnormal hoffset hsign p'),
  ('Slice', 'is_in', ['p:V'], 'B', 'slab_stored_is_in tol lnormal loffset lsign hnormal hoffset hsign p'),
  ('Intersection', 'is_in', ['p:V'], 'B', 'inter_is_in ia ib p'),
  ('Intersection', 'dykstra_project', ['point:V'], 'V', 'dykstra_fuel pa pb ia ib maxiter fuel point'),
  ('Intersection', 'project', ['p:V'], 'V', 'inter_project_fuel pa pb ia ib maxiter fuel p'),
  ('List', 'project', ['point:M'], 'M', 'list_stored_project projs axis shape point'),
]
RT = {'B': 'bool', 'V': 'list A', 'M': 'list (list A)'}


def float_const(node):
  if isinstance(node, ast.Constant) and isinstance(node.value, (int, float)) and not isinstance(node.value, bool):
    f = Fraction(node.value)
    return f
  return None


def gen_projection(repo):
  fname = os.path.join(repo, 'device_kit', 'projection', 'projection.py')
  out = ['(* GENERATED by translator/stmt_tx.py from device_kit/projection/projection.py -- do not edit. *)',
         'From Coq Require Import ZArith List Bool Arith.', 'From DK Require Import Num Vec.',
         'From DK.Model Require Import Projection PyOps.', 'Import ListNotations.', 'Section GenProjection.', 'Context {A : Type} `{Num A}.',
         'Local Open Scope num_scope.', '(* np.linalg.norm: not in the carrier class; a parameter, instantiated with sqrt <n,n> over the reals *)',
         'Variable nrm : list A -> A.', '']
  translated, untranslated = [], []
  try:
    tree = ast.parse(open(fname).read(), fname)
    tx = Tx(tree, PROJ_CFG)
  except (SyntaxError, OSError):
    tx = None
  # class constants
  consts = []
  for cls, name, coqname, kind in (('ConvexRegion', 'tol', 'ConvexRegion_tol', 'S'), ('Intersection', '_maxiter', 'Intersection_maxiter', 'N')):
    v = float_const(tx.class_const(cls, name)) if tx and cls in tx.classes else None
    if v is None:
      untranslated.append(coqname)
      v = Fraction(1, 10 ** 10) if kind == 'S' else Fraction(1000)
      if kind == 'S':
        v = Fraction(1e-10)
    if kind == 'N':
      if v.denominator != 1 or not (0 <= v.numerator <= 5000):
        untranslated.append(coqname)
        v = Fraction(1000)
      consts.append('Definition %s : nat := %d.' % (coqname, v.numerator))
    else:
      consts.append('Definition %s : A := nofZ (%d) / nofZ %d.' % (coqname, v.numerator, v.denominator))
    if coqname not in untranslated:
      translated.append(coqname)
  for (cls, m, params, rtype, fallback) in PROJ_TARGETS:
    binders = ' '.join('(%s : %s)' % (p.split(':')[0], COQTYPE[p.split(':')[1]]) for p in params)
    head = 'Definition %s_%s %s %s : pres (%s) :=' % (cls, m, PROJ_CFG[cls]['decl'], binders, RT[rtype])
    try:
      if tx is None or cls not in tx.classes:
        raise Unsupported('?:Module:class %s not found' % cls)
      dcls, node = tx.find_method(cls, m)
      if node is None or dcls != cls:
        raise Unsupported('?:ClassDef:method %s.%s not found' % (cls, m))
      a = node.args
      if a.vararg or a.kwarg or a.kwonlyargs or a.posonlyargs or a.defaults:
        U(node, 'argument list')
      names = [x.arg for x in a.args][1:]
      if names != [p.split(':')[0] for p in params]:
        U(node, 'parameters %s' % names)
      env = {'self': ('obj', cls, PROJ_CFG[cls]['self'])}
      if 'fuel' in PROJ_CFG[cls]['self']:
        env['fuel'] = PROJ_CFG[cls]['self']['fuel']
      for p in params:
        env[p.split(':')[0]] = val(p.split(':')[0], p.split(':')[1])
      tx.cnt = 0
      body = tx.stmts(node.body, env, None, rtype)
      translated.append('%s_%s' % (cls, m))
      out.append('(* projection.py: %s.%s *)' % (cls, m))
    except Unsupported as e:
      body = fallback
      untranslated.append('%s_%s' % (cls, m))
      out.append('(* projection.py: %s.%s NOT TRANSLATED (%s): alias of the hand-written model, tie falls back to the correspondence *)' % (
          cls, m, str(e).replace('*)', '* )')))
    out.append(head + '\n  ' + body + '.\n')
  # constructors: the guards and the stored attributes
  ctor_defs = [
    ('HalfSpace', '__init__', 'Definition HalfSpace_init (normal : list A) (offset sign : A) : pres (list A * A * A) :=',
     'half_stored_init nrm normal offset sign'),
    ('Slice', '__init__', 'Definition Slice_init (normal : list A) (low high : A) : pres ((list A * A * A) * (list A * A * A)) :=',
     'slab_stored_init nrm normal low high'),
  ]
  for cls, m, head, fallback in ctor_defs:
    try:
      if tx is None or cls not in tx.classes:
        raise Unsupported('?:Module:class %s not found' % cls)
      body = ctor(tx, cls)
      translated.append('%s_init' % cls)
      out.append('(* projection.py: %s.__init__ *)' % cls)
    except Unsupported as e:
      body = fallback
      untranslated.append('%s_init' % cls)
      out.append('(* projection.py: %s.__init__ NOT TRANSLATED (%s): alias of the hand-written model *)' % (cls, str(e).replace('*)', '* )')))
    out.append(head + '\n  ' + body + '.\n')
  # Device.project (device_kit/device.py): the box region is rebuilt whenever the bounds are assigned, and project goes through it
  try:
    body = device_project(repo)
    translated.append('Device_project')
    out.append('(* device.py: Device.project *)')
  except (Unsupported, SyntaxError, OSError) as e:
    body = 'leaf_project bounds s'
    untranslated.append('Device_project')
    out.append('(* device.py: Device.project NOT TRANSLATED (%s): alias of the hand-written model, tie falls back to the correspondence *)' % str(e).replace('*)', '* )'))
  out.append('Definition Device_project (bounds : list (A * A)) (s : list (list A)) : pres (list (list A)) :=\n  %s.\n' % body)
  out.append('End GenProjection.')
  out[out.index('Variable nrm : list A -> A.') + 1:out.index('Variable nrm : list A -> A.') + 1] = consts
  out.append('From Coq Require Import String.')
  out.append('Definition projection_translated : list String.string := [%s]%%string.' % '; '.join('"%s"' % x for x in translated))
  out.append('Definition projection_untranslated : list String.string := [%s]%%string.' % '; '.join('"%s"' % x for x in untranslated))
  return '\n'.join(out) + '\n'


def device_project(repo):
  """Device.project: `self._feasible_region.project(s.reshape(len(self))).reshape(self.shape)`, where _build_feasible_region sets
  `_feasible_region = HyperCube(self.bounds)` and is called by __init__ and by the bounds setter AFTER the bounds are stored, and
  `shape` is (1, len(self))."""
  tree = ast.parse(open(os.path.join(repo, 'device_kit', 'device.py')).read())
  un = ast.unparse
  try:
    node = next(c for c in tree.body if isinstance(c, ast.ClassDef) and c.name == 'Device')
  except StopIteration:
    raise Unsupported('?:Module:class Device not found')
  fns = [n for n in node.body if isinstance(n, ast.FunctionDef)]
  def one(name, decs):
    r = [f for f in fns if f.name == name and [un(d) for d in f.decorator_list] == decs]
    if len(r) != 1:
      U(node, '%s %s' % (name, decs))
    return r[0]
  def code(f):
    return [un(x) for x in f.body if not (isinstance(x, ast.Expr) and isinstance(x.value, ast.Constant))]
  if code(one('project', [])) != ['return self._feasible_region.project(s.reshape(len(self))).reshape(self.shape)']:
    U(node, 'project')
  if code(one('_build_feasible_region', [])) != ['region = HyperCube(self.bounds)', 'self._feasible_region = region']:
    U(node, '_build_feasible_region')
  if code(one('shape', ['property'])) != ['return (1, len(self))'] or code(one('bounds', ['property'])) != ['return self._bounds']:
    U(node, 'shape / bounds property')
  st = code(one('bounds', ['bounds.setter']))
  if 'self._bounds = bounds' not in st or 'self._build_feasible_region()' not in st or st.index('self._build_feasible_region()') < st.index('self._bounds = bounds'):
    U(node, 'the bounds setter does not rebuild the region after storing the bounds')
  init = code(one('__init__', []))
  if 'self.bounds = bounds' not in init:
    U(node, '__init__ does not go through the bounds setter')
  return '(pbind (HyperCube_project bounds (List.concat s)) (fun v => POk [v]))'


def ctor(tx, cls):
  """HalfSpace.__init__ / Slice.__init__: `if guard: raise ValueError`, then `self._x = e` assignments."""
  _, node = tx.find_method(cls, '__init__')
  if node is None:
    U(tx.classes[cls], '__init__')
  names = [x.arg for x in node.args.args][1:]
  if cls == 'HalfSpace':
    if names != ['normal', 'offset', 'sign']:
      U(node, 'parameters')
    env = {'normal': val('normal', 'V'), 'offset': val('offset', 'S'), 'sign': val('sign', 'S')}
    want = ['_normal', '_offset', '_sign']
  else:
    if names != ['normal', 'low', 'high']:
      U(node, 'parameters')
    env = {'normal': val('normal', 'V'), 'low': val('low', 'S'), 'high': val('high', 'S')}
    want = ['_low', '_high']
  body = [s for s in node.body if not (isinstance(s, ast.Expr) and isinstance(s.value, ast.Constant))]
  guards, stores = [], {}
  for s in body:
    if isinstance(s, ast.If) and not s.orelse and len(s.body) == 1 and isinstance(s.body[0], ast.Raise) and not stores:
      exc = s.body[0].exc
      if not (isinstance(exc, ast.Call) and isinstance(exc.func, ast.Name) and exc.func.id == 'ValueError'):
        U(s, 'raise')
      guards.append(tx.pure(s.test, env, 'B'))
    elif isinstance(s, ast.Assign) and len(s.targets) == 1 and isinstance(s.targets[0], ast.Attribute) and \
        isinstance(s.targets[0].value, ast.Name) and s.targets[0].value.id == 'self' and s.targets[0].attr in want and s.targets[0].attr not in stores:
      a = s.targets[0].attr
      if cls == 'HalfSpace':
        stores[a] = tx.pure(s.value, env, 'V' if a == '_normal' else 'S')
      else:
        v = s.value
        if not (isinstance(v, ast.Call) and isinstance(v.func, ast.Name) and v.func.id == 'HalfSpace' and len(v.args) == 3 and not v.keywords):
          U(s, 'sub-region')
        args = [tx.pure(v.args[0], env, 'V'), tx.pure(v.args[1], env, 'S'), tx.pure(v.args[2], env, 'S')]
        stores[a] = '(HalfSpace_init %s)' % ' '.join(args)
    else:
      U(s, 'constructor statement')
  if sorted(stores) != sorted(want):
    U(node, 'stored attributes %s' % sorted(stores))
  if cls == 'HalfSpace':
    res = '(POk (%s, %s, %s))' % (stores['_normal'], stores['_offset'], stores['_sign'])
  else:
    res = '(pbind %s (fun lo => pbind %s (fun hi => POk (lo, hi))))' % (stores['_low'], stores['_high'])
  for g in reversed(guards):
    res = '(if %s then PValueError else %s)' % (g, res)
  return res


if __name__ == '__main__':
  import sys
  print(gen_projection(sys.argv[1] if len(sys.argv) > 1 else '/repo'))
