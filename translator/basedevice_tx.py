"""BaseDevice.leaf_devices / map / mapDevices / get / find (device_kit/basedevice.py)  ->  coq/Gen/BaseDevice.v.

leaf_devices: the nested generator `_leaf_devices(device, fqid, s='.')` - `try: for sub_device in device: for item in
_leaf_devices(sub_device, <label expression>, s): yield item  except: yield (fqid, device)` - becomes a recursive function over `itree`
(Model/LabelOps.v: a device is its id plus, when it supports iteration, its sub-devices) on explicit fuel; the label expression
(string concatenation of fqid, s and sub_device.id in whatever order the source has) is translated, as are the yielded tuple and the
accumulation loop of the outer function.  map / mapDevices: the reshape, `enumerate(self.leaf_devices())`, the row slice `s[a:b, :]`
with its index arithmetic and the yielded tuple.  get / find: the comprehension over `dict(self.leaf_devices()).items()` with its
test (`k.endswith(name)`, `re.match(regexp, k)` - the regular-expression matcher is a parameter) and the `[0]`.
Proofs/GenBaseDevice.v proves them equal to leaves / map_rows / map_devices / get / find_* of Model/Tree.v.  Graceful per method.
"""
import ast
import os


class Unsupported(Exception):
  pass


def U(node, why):
  raise Unsupported('%s:%s:%s' % (getattr(node, 'lineno', '?'), type(node).__name__, why))


def un(e):
  return ast.unparse(e)


def nodoc(body):
  return [s for s in body if not (isinstance(s, ast.Expr) and isinstance(s.value, ast.Constant))]


def sexpr(e, env):
  """string expressions: names, '.', + , <device>.id"""
  if isinstance(e, ast.Name) and e.id in env and env[e.id][1] == 'STR':
    return env[e.id][0]
  if isinstance(e, ast.Constant) and isinstance(e.value, str) and '"' not in e.value:
    return '"%s"%%string' % e.value
  if isinstance(e, ast.Attribute) and e.attr == 'id' and isinstance(e.value, ast.Name) and e.value.id in env and env[e.value.id][1] == 'DEV':
    return '(it_id %s)' % env[e.value.id][0]
  if isinstance(e, ast.BinOp) and isinstance(e.op, ast.Add):
    return '(String.append %s %s)' % (sexpr(e.left, env), sexpr(e.right, env))
  U(e, 'string expression %s' % un(e))


def nexpr(e, env):
  """natural-number index expressions: names, constants, +"""
  if isinstance(e, ast.Name) and e.id in env and env[e.id][1] == 'N':
    return env[e.id][0]
  if isinstance(e, ast.Constant) and isinstance(e.value, int) and not isinstance(e.value, bool) and e.value >= 0:
    return '%d%%nat' % e.value
  if isinstance(e, ast.BinOp) and isinstance(e.op, ast.Add):
    return '(%s + %s)%%nat' % (nexpr(e.left, env), nexpr(e.right, env))
  U(e, 'index expression %s' % un(e))


def tr_leaf_devices(fn):
  body = nodoc(fn.body)
  if len(body) != 4 or not isinstance(body[0], ast.FunctionDef):
    U(fn, 'leaf_devices body')
  inner, init, loop, ret = body
  a = inner.args
  if [x.arg for x in a.args] != ['device', 'fqid', 's'] or len(a.defaults) != 1 or un(a.defaults[0]) != "'.'":
    U(inner, 'parameters of %s' % inner.name)
  ib = nodoc(inner.body)
  if len(ib) != 1 or not isinstance(ib[0], ast.Try) or ib[0].orelse or ib[0].finalbody or len(ib[0].handlers) != 1:
    U(inner, 'try / except')
  tr = ib[0]
  h = tr.handlers[0]
  if h.type is not None or len(h.body) != 1 or not (isinstance(h.body[0], ast.Expr) and isinstance(h.body[0].value, ast.Yield)):
    U(h, 'except clause')
  env = {'device': ('device', 'DEV'), 'fqid': ('fqid', 'STR'), 's': ('s', 'STR')}
  y = h.body[0].value.value
  if not (isinstance(y, ast.Tuple) and len(y.elts) == 2 and isinstance(y.elts[1], ast.Name) and env.get(y.elts[1].id, (0, 0))[1] == 'DEV'):
    U(h, 'yielded leaf entry')
  leaf_entry = '(%s, %s)' % (sexpr(y.elts[0], env), env[y.elts[1].id][0])
  if len(tr.body) != 1 or not isinstance(tr.body[0], ast.For) or tr.body[0].orelse:
    U(tr, 'try body')
  f1 = tr.body[0]
  if not (isinstance(f1.target, ast.Name) and isinstance(f1.iter, ast.Name) and env.get(f1.iter.id, (0, 0))[1] == 'DEV'):
    U(f1, 'outer loop')
  sub = f1.target.id
  env2 = dict(env)
  env2[sub] = (sub, 'DEV')
  if len(f1.body) != 1 or not isinstance(f1.body[0], ast.For) or f1.body[0].orelse:
    U(f1, 'outer loop body')
  f2 = f1.body[0]
  c = f2.iter
  if not (isinstance(f2.target, ast.Name) and isinstance(c, ast.Call) and un(c.func) == inner.name and len(c.args) == 3 and not c.keywords and
          isinstance(c.args[0], ast.Name) and env2.get(c.args[0].id, (0, 0))[1] == 'DEV'):
    U(f2, 'recursive call')
  item = f2.target.id
  if len(f2.body) != 1 or not (isinstance(f2.body[0], ast.Expr) and isinstance(f2.body[0].value, ast.Yield) and un(f2.body[0].value.value) == item):
    U(f2, 'inner loop body')
  rec = '(_leaf_devices_gen fuel\' %s %s %s)' % (env2[c.args[0].id][0], sexpr(c.args[1], env2), sexpr(c.args[2], env2))
  fix = ('Fixpoint _leaf_devices_gen (fuel : nat) (device : itree T) (fqid s : string) {struct fuel} : list (string * itree T) :=\n'
         '  match fuel with O => [] | S fuel\' =>\n'
         '    match it_kids device with\n'
         '    | Some subs_ => flat_map (fun %s => flat_map (fun %s => [%s]) %s) subs_\n'
         '    | None => [%s]\n'
         '    end end.\n' % (sub, item, item, rec, leaf_entry))
  # items = []; for item in _leaf_devices(self, self.id, '.'): items.append(item); return items
  if not (isinstance(init, ast.Assign) and len(init.targets) == 1 and isinstance(init.targets[0], ast.Name) and un(init.value) == '[]'):
    U(init, 'accumulator')
  acc = init.targets[0].id
  envo = {'self': ('self', 'DEV')}
  c = loop.iter if isinstance(loop, ast.For) else None
  if not (c is not None and not loop.orelse and isinstance(loop.target, ast.Name) and isinstance(c, ast.Call) and un(c.func) == inner.name and
          2 <= len(c.args) <= 3 and not c.keywords and un(c.args[0]) == 'self' and len(loop.body) == 1 and
          un(loop.body[0]) == '%s.append(%s)' % (acc, loop.target.id)):
    U(loop, 'accumulation loop')
  sep = sexpr(c.args[2], envo) if len(c.args) == 3 else '"."%string'
  if not (isinstance(ret, ast.Return) and un(ret.value) == acc):
    U(ret, 'result')
  outer = ('(let %s := [] in let %s := fold_left (fun %s %s => %s ++ [%s]) (_leaf_devices_gen fuel self %s %s) %s in %s)'
           % (acc, acc, acc, loop.target.id, acc, loop.target.id, sexpr(c.args[1], envo), sep, acc, acc))
  return fix, outer


def tr_map(fn, arity):
  body = nodoc(fn.body)
  if [x.arg for x in fn.args.args] != ['self', 's'] or len(body) != 2:
    U(fn, 'map body')
  if un(body[0]) != 's = s.reshape(self.shape)':
    U(body[0], 'reshape')
  loop = body[1]
  if not (isinstance(loop, ast.For) and not loop.orelse and isinstance(loop.target, ast.Tuple) and len(loop.target.elts) == 2 and
          all(isinstance(x, ast.Name) for x in loop.target.elts) and un(loop.iter) == 'enumerate(self.leaf_devices())' and len(loop.body) == 1 and
          isinstance(loop.body[0], ast.Expr) and isinstance(loop.body[0].value, ast.Yield) and isinstance(loop.body[0].value.value, ast.Tuple)):
    U(loop, 'map loop')
  i, d = (x.id for x in loop.target.elts)
  env = {i: (i, 'N')}
  elts = loop.body[0].value.value.elts
  if len(elts) != arity:
    U(loop, 'yields %d-tuples' % len(elts))
  out = []
  for e in elts:
    if isinstance(e, ast.Subscript) and un(e.value) == d and isinstance(e.slice, ast.Constant) and e.slice.value in (0, 1):
      out.append('(%s %s)' % ('fst' if e.slice.value == 0 else 'snd', d))
    elif isinstance(e, ast.Call) and isinstance(e.func, ast.Attribute) and e.func.attr == 'reshape' and un(e.args[0]) == 'len(self)' and len(e.args) == 1 and \
        isinstance(e.func.value, ast.Subscript) and un(e.func.value.value) == 's' and isinstance(e.func.value.slice, ast.Tuple) and len(e.func.value.slice.elts) == 2 and \
        isinstance(e.func.value.slice.elts[0], ast.Slice) and e.func.value.slice.elts[0].step is None and e.func.value.slice.elts[0].lower is not None and \
        e.func.value.slice.elts[0].upper is not None and un(e.func.value.slice.elts[1]) == ':':
      sl = e.func.value.slice.elts[0]
      out.append('(rows_flat %s %s s)' % (nexpr(sl.lower, env), nexpr(sl.upper, env)))
    else:
      U(e, 'tuple element %s' % un(e))
  return "(let s := reshape (fst shape) (snd shape) s in map (fun '(%s, %s) => (%s)) (enum leafs))" % (i, d, ', '.join(out))


def tr_lookup(fn, param, first):
  body = nodoc(fn.body)
  if [x.arg for x in fn.args.args] != ['self', param] or len(body) != 1 or not isinstance(body[0], ast.Return):
    U(fn, 'lookup body')
  e = body[0].value
  if first:
    if not (isinstance(e, ast.Subscript) and isinstance(e.slice, ast.Constant) and e.slice.value == 0):
      U(e, 'first element')
    e = e.value
  if not (isinstance(e, ast.ListComp) and len(e.generators) == 1 and len(e.generators[0].ifs) == 1):
    U(e, 'comprehension')
  g = e.generators[0]
  if not (isinstance(g.target, ast.Tuple) and len(g.target.elts) == 2 and all(isinstance(x, ast.Name) for x in g.target.elts) and
          un(g.iter) == 'dict(self.leaf_devices()).items()'):
    U(g, 'generator')
  k, v = (x.id for x in g.target.elts)
  if un(e.elt) != v:
    U(e, 'element %s' % un(e.elt))
  t = g.ifs[0]
  if isinstance(t, ast.Call) and isinstance(t.func, ast.Attribute) and t.func.attr in ('endswith', 'startswith') and un(t.func.value) == k and \
     len(t.args) == 1 and un(t.args[0]) == param:
    test = '(%s (fst kv) %s)' % ('ends_with' if t.func.attr == 'endswith' else 'starts_with', param)
  elif isinstance(t, ast.Call) and un(t.func) == 're.match' and len(t.args) == 2 and un(t.args[0]) == param and un(t.args[1]) == k and not t.keywords:
    test = '(rematch %s (fst kv))' % param
  else:
    U(t, 'test %s' % un(t))
  lst = '(map snd (filter (fun kv => %s) (as_dict leafs)))' % test
  return '(hd_error %s)' % lst if first else lst


def tr_labelled_sets(tree):
  """SubBalancedDeviceSet._labelled_sets (+ the two lines of __init__ that unpack it): an ordered dictionary of the leaf labels, for each
  label of self.labels the rows whose key matches '.*{label}$' (the matcher is the section parameter), collected in a dict keyed by label,
  and the remaining rows as a set updated with difference_update."""
  try:
    cls = next(n for n in tree.body if isinstance(n, ast.ClassDef) and n.name == 'SubBalancedDeviceSet')
  except StopIteration:
    raise Unsupported('?:Module:class SubBalancedDeviceSet not found')
  fns = {f.name: f for f in cls.body if isinstance(f, ast.FunctionDef)}
  init = fns.get('__init__') or U(cls, 'constructor')
  src = [un(x) for x in init.body]
  if 'self.labelled_sets, self.unlabelled_set = self._labelled_sets()' not in src or 'self.labelled_sets = list(self.labelled_sets.values())' not in src or \
     'self.labels = labels' not in src:
    U(init, 'constructor does not store the label sets as (values of the dict, list of the rest)')
  fn = fns.get('_labelled_sets') or U(cls, '_labelled_sets')
  b = nodoc(fn.body)
  if len(b) != 5:
    U(fn, 'body')
  if un(b[0]) != 'leaf_devices = OrderedDict(self.leaf_devices())' or un(b[1]) != 'labelled = {}' or un(b[2]) != 'unlabelled = set(range(len(leaf_devices)))':
    U(fn, 'prologue')
  loop, ret = b[3], b[4]
  if not (isinstance(loop, ast.For) and not loop.orelse and isinstance(loop.target, ast.Name) and un(loop.iter) == 'self.labels' and len(loop.body) == 2):
    U(loop, 'loop')
  lab = loop.target.id
  a, u = loop.body
  if not (isinstance(a, ast.Assign) and un(a.targets[0]) == 'labelled[%s]' % lab and isinstance(a.value, ast.ListComp) and len(a.value.generators) == 1):
    U(a, 'rows of a label')
  g = a.value.generators[0]
  if not (isinstance(g.target, ast.Tuple) and len(g.target.elts) == 2 and all(isinstance(x, ast.Name) for x in g.target.elts) and
          un(g.iter) == 'enumerate(leaf_devices.keys())' and len(g.ifs) == 1):
    U(g, 'generator')
  k, v = (x.id for x in g.target.elts)
  if un(a.value.elt) == k:
    pick = 'fst'
  else:
    U(a, 'element %s' % un(a.value.elt))
  t = g.ifs[0]
  if not (isinstance(t, ast.Call) and un(t.func) == 're.match' and len(t.args) == 2 and un(t.args[1]) == v and isinstance(t.args[0], ast.Call) and
          isinstance(t.args[0].func, ast.Attribute) and t.args[0].func.attr == 'format' and isinstance(t.args[0].func.value, ast.Constant) and
          {kw.arg: un(kw.value) for kw in t.args[0].keywords} == {'label': lab} and not t.args[0].args):
    U(t, 'test')
  fmt = t.args[0].func.value.value
  if fmt.count('{label}') != 1 or '"' in fmt:
    U(t, 'pattern %r' % fmt)
  pre, post = fmt.split('{label}')
  pat = '(String.append "%s" (String.append %s "%s"))' % (pre, lab, post)
  if un(u) != 'unlabelled.difference_update(labelled[%s])' % lab:
    U(u, 'update of the rest')
  if un(ret) != 'return (labelled, list(unlabelled))':
    U(ret, 'result')
  return ("(let leaf_devices := as_dict leafs in let labelled := [] in let unlabelled := seq 0 (List.length leaf_devices) in "
          "let st := fold_left (fun st %s => let labelled := fst st in let unlabelled := snd st in "
          "let labelled := dict_set %s (map %s (filter (fun kv => let %s := fst kv in let %s := snd kv in rematch %s %s) (enum (map fst leaf_devices)))) labelled in "
          "let unlabelled := set_minus unlabelled (dict_get [] %s labelled) in (labelled, unlabelled)) labels (labelled, unlabelled) in "
          "(map snd (fst st), snd st))" % (lab, lab, pick, k, v, pat, v, lab))


def gen_basedevice(repo):
  fname = os.path.join(repo, 'device_kit', 'basedevice.py')
  out = ['(* GENERATED by translator/basedevice_tx.py from device_kit/basedevice.py -- do not edit. *)',
         'From Coq Require Import String.', 'From Coq Require Import List Arith Bool.', 'From DK Require Import Num Vec.',
         'From DK.Model Require Import Leaf Fn Dev Tree LabelOps.', 'Import ListNotations.', 'Section GenBaseDevice.',
         'Context {A : Type} {T X : Type}.', 'Variable rematch : string -> string -> bool.', '']
  try:
    tree = ast.parse(open(fname).read(), fname)
    cls = next(n for n in tree.body if isinstance(n, ast.ClassDef) and n.name == 'BaseDevice')
    fns = {f.name: f for f in cls.body if isinstance(f, ast.FunctionDef)}
  except (SyntaxError, OSError, StopIteration):
    fns = {}
  translated, untranslated = [], []

  def emit(name, coqname, sig, f, fallback, pre=''):
    try:
      if name not in fns:
        raise Unsupported('?:Class:%s not found' % name)
      r = f(fns[name])
      translated.append(coqname)
      out.append('(* basedevice.py: BaseDevice.%s *)' % name)
    except Unsupported as e:
      r = fallback
      untranslated.append(coqname)
      out.append('(* basedevice.py: BaseDevice.%s NOT TRANSLATED (%s): alias of the hand-written model, tie falls back to the correspondence *)' % (name, str(e).replace('*)', '* )')))
    if isinstance(r, tuple):
      out.append(r[0])
      r = r[1]
    out.append('Definition %s %s :=\n  %s.\n' % (coqname, sig, r))

  FIX_FALLBACK = ('Fixpoint _leaf_devices_gen (fuel : nat) (device : itree T) (fqid s : string) {struct fuel} : list (string * itree T) :=\n'
                  '  match fuel with O => [] | S fuel\' =>\n    match it_kids device with\n'
                  '    | Some subs_ => flat_map (fun sub_device => _leaf_devices_gen fuel\' sub_device (String.append fqid (String.append s (it_id sub_device))) s) subs_\n'
                  '    | None => [(fqid, device)]\n    end end.\n')
  emit('leaf_devices', 'leaf_devices_gen', '(fuel : nat) (self : itree T) : list (string * itree T)', tr_leaf_devices,
       (FIX_FALLBACK, '_leaf_devices_gen fuel self (it_id self) "."%string'))
  emit('map', 'map_gen', '(leafs : list (string * X)) (shape : nat * nat) (s : list A) : list (string * list A)', lambda f: tr_map(f, 2),
       'combine (map fst leafs) (reshape (fst shape) (snd shape) s)')
  emit('mapDevices', 'mapDevices_gen', '(leafs : list (string * X)) (shape : nat * nat) (s : list A) : list (string * X * list A)', lambda f: tr_map(f, 3),
       'combine leafs (reshape (fst shape) (snd shape) s)')
  emit('get', 'get_gen', '(leafs : list (string * X)) (name : string) : option X', lambda f: tr_lookup(f, 'name', True), 'get_in leafs name')
  emit('find', 'find_gen', '(leafs : list (string * X)) (regexp : string) : list X', lambda f: tr_lookup(f, 'regexp', False),
       'map snd (filter (fun kv => rematch regexp (fst kv)) (as_dict leafs))')
  # SubBalancedDeviceSet._labelled_sets (device_kit/subbalanceddeviceset.py)
  try:
    t2 = ast.parse(open(os.path.join(repo, 'device_kit', 'subbalanceddeviceset.py')).read())
    body = tr_labelled_sets(t2)
    translated.append('labelled_sets_gen')
    out.append('(* subbalanceddeviceset.py: SubBalancedDeviceSet._labelled_sets *)')
  except (Unsupported, SyntaxError, OSError) as e:
    body = '(let _ := rematch in (labelled_sets (map fst (as_dict leafs)) labels, unlabelled_set (map fst (as_dict leafs)) labels))'
    untranslated.append('labelled_sets_gen')
    out.append('(* subbalanceddeviceset.py: SubBalancedDeviceSet._labelled_sets NOT TRANSLATED (%s): alias of the hand-written model, tie falls back to the correspondence *)' % str(e).replace('*)', '* )'))
  out.append('Definition labelled_sets_gen (leafs : list (string * X)) (labels : list string) : list (list nat) * list nat :=\n  %s.\n' % body)
  out.append('End GenBaseDevice.')
  out.append('Definition basedevice_translated : list String.string := [%s]%%string.' % '; '.join('"%s"' % x for x in translated))
  out.append('Definition basedevice_untranslated : list String.string := [%s]%%string.' % '; '.join('"%s"' % x for x in untranslated))
  return '\n'.join(out) + '\n'


if __name__ == '__main__':
  import sys
  print(gen_basedevice(sys.argv[1] if len(sys.argv) > 1 else '/repo'))
