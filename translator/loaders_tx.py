"""loaders/builder_loader.py (run_to_array, run_to_cbounds_array) and utils.py (care2bounds, on2bounds)  ->  coq/Gen/Loaders.v.

A small typed expression / statement grammar (integers, lists of integers, the run dictionary, arrays built by slice assignment or
append inside `for i, v in enumerate(...)` / `for i in range(0, n, 2)` loops, mask products, np.stack(axis=1)) mapped to the list
functions of Model/LoaderOps.v.  Integer expressions with a subtraction are compared in Z (Python integers do not truncate).
Proofs/GenLoaders.v proves the generated functions equal to the model of Model/Loader.v.  Graceful per function: a function that leaves
the grammar is emitted as an alias of the hand model and listed in loaders_untranslated.
"""
import ast
import os


class Unsupported(Exception):
  pass


def U(node, why):
  raise Unsupported('%s:%s:%s' % (getattr(node, 'lineno', '?'), type(node).__name__, why))


def un(e):
  return ast.unparse(e)


class Tx:
  def __init__(self, cfg):
    self.cfg = cfg          # 'zero': default element term; 'outcome': whether the function returns an outcome
    self.result = None

  # ---- expressions ------------------------------------------------------------------------------------------------------------
  def z(self, v):
    """an integer value as a Z term"""
    t, ty = v
    if ty == 'N':
      return '(Z.of_nat %s)' % t
    if ty == 'Z':
      return t
    raise Unsupported('?:?:not an integer (%s)' % ty)

  def ex(self, e, env):
    if isinstance(e, ast.Constant) and isinstance(e.value, int) and not isinstance(e.value, bool):
      if e.value < 0:
        U(e, 'negative constant')
      return '%d%%nat' % e.value, 'N'
    if isinstance(e, ast.Name):
      if e.id in env:
        return env[e.id]
      U(e, 'name %s' % e.id)
    if isinstance(e, ast.Subscript):
      # run['runs'] / run['basis'] / device['care'|'on'|'bounds']
      if isinstance(e.value, ast.Name) and e.value.id in env and env[e.value.id][1] == 'RUN' and isinstance(e.slice, ast.Constant):
        if e.slice.value == 'runs':
          return 'rmap', 'RUNMAP'
        if e.slice.value == 'basis':
          return 'basis', 'N'
        U(e, 'run key')
      if isinstance(e.value, ast.Name) and e.value.id in env and env[e.value.id][1] == 'DICT' and isinstance(e.slice, ast.Constant):
        k = e.slice.value
        if k in self.cfg.get('fields', {}):
          return self.cfg['fields'][k]
        U(e, 'device key %r' % k)
      v = self.ex(e.value, env)
      if v[1] == 'RUNMAP':
        k = self.ex(e.slice, env)
        if k[1] == 'N':
          return '(rget %s %s rmap)' % (self.cfg['zero'], k[0]), 'VAL'
        U(e, 'run lookup by %s' % k[1])
      if v[1] == 'NL':
        k = self.ex(e.slice, env)
        if k[1] == 'N':
          return '(nth %s %s 0%%nat)' % (k[0], v[0]), 'N'
        U(e, 'index of type %s' % k[1])
      if v[1] == 'BOUNDS' and isinstance(e.slice, ast.Constant) and isinstance(e.slice.value, int) and e.slice.value >= 0:
        return '(nth %d %s (PS n0))' % (e.slice.value, v[0]), 'ITEM'
      U(e, 'subscript of %s' % v[1])
    if isinstance(e, ast.BinOp):
      a, b = self.ex(e.left, env), self.ex(e.right, env)
      op = type(e.op)
      ints = ('N', 'Z')
      if op is ast.Add and a[1] == 'N' and b[1] == 'N':
        return '(%s + %s)%%nat' % (a[0], b[0]), 'N'
      if op in (ast.Add, ast.Sub) and a[1] in ints and b[1] in ints:
        return '(%s %s %s)%%Z' % (self.z(a), '+' if op is ast.Add else '-', self.z(b)), 'Z'
      if op is ast.Mult and a[1] == 'MASK' and b[1] == 'ITEM':
        return '(mask_mul_item %s %s)' % (a[0], b[0]), 'VEC'
      if op is ast.Mult and a[1] == 'MASK' and b[1] == 'BOUNDS':
        return '(mask_mul_seq %s %s)' % (a[0], b[0]), 'VEC'
      U(e, 'operator on %s, %s' % (a[1], b[1]))
    if isinstance(e, ast.Compare) and len(e.ops) == 1:
      a, b = self.ex(e.left, env), self.ex(e.comparators[0], env)
      op = type(e.ops[0])
      ints = ('N', 'Z')
      if a[1] in ints and b[1] in ints:
        if 'Z' in (a[1], b[1]):
          sym = {ast.Lt: '<?', ast.LtE: '<=?', ast.Eq: '=?', ast.Gt: '>?', ast.GtE: '>=?'}.get(op) or U(e, 'comparison')
          return '(%s %s %s)%%Z' % (self.z(a), sym, self.z(b)), 'B'
        if op in (ast.Gt, ast.GtE):
          a, b, op = b, a, {ast.Gt: ast.Lt, ast.GtE: ast.LtE}[op]
        sym = {ast.Lt: '<?', ast.LtE: '<=?', ast.Eq: '=?'}.get(op) or U(e, 'comparison')
        return '(%s %s %s)%%nat' % (a[0], sym, b[0]), 'B'
      U(e, 'comparison of %s, %s' % (a[1], b[1]))
    if isinstance(e, ast.IfExp):
      c, a, b = self.ex(e.test, env), self.ex(e.body, env), self.ex(e.orelse, env)
      if c[1] != 'B' or a[1] != b[1]:
        U(e, 'conditional expression of %s ? %s : %s' % (c[1], a[1], b[1]))
      return '(if %s then %s else %s)' % (c[0], a[0], b[0]), a[1]
    if isinstance(e, ast.Call):
      f = un(e.func)
      kws = {k.arg: un(k.value) for k in e.keywords}
      if f == 'int' and len(e.args) == 1 and not kws:
        a = self.ex(e.args[0], env)
        if a[1] == 'N':
          return a
        U(e, 'int of %s' % a[1])
      if f == 'len' and len(e.args) == 1 and not kws:
        a = self.ex(e.args[0], env)
        if a[1] in ('NL', 'BOUNDS', 'ARR', 'MASK'):
          return '(List.length %s)' % a[0], 'N'
        U(e, 'len of %s' % a[1])
      if f == 'sorted' and len(e.args) == 1 and kws == {'key': 'int'} and isinstance(e.args[0], ast.Call) and \
         isinstance(e.args[0].func, ast.Attribute) and e.args[0].func.attr == 'keys' and not e.args[0].args:
        a = self.ex(e.args[0].func.value, env)
        if a[1] == 'RUNMAP':
          return '(sorted_keys rmap)', 'NL'
      if f == 'np.zeros' and len(e.args) == 1 and not kws:
        a = self.ex(e.args[0], env)
        if a[1] == 'SHAPE':
          return '(repeat %s %s)' % (self.cfg['zero'], a[0]), 'ARR'
        if a[1] == 'N' and 'mask_zero' in self.cfg:
          return '(repeat %s %s)' % (self.cfg['mask_zero'], a[0]), 'MASK'
      if f == 'np.stack' and len(e.args) == 1 and kws == {'axis': '1'} and isinstance(e.args[0], ast.Tuple) and len(e.args[0].elts) == 2:
        a, b = self.ex(e.args[0].elts[0], env), self.ex(e.args[0].elts[1], env)
        if a[1] == 'VEC' and b[1] == 'VEC':
          return '(stack_cols %s %s)' % (a[0], b[0]), 'TABLE'
      U(e, 'call %s' % un(e))
    if isinstance(e, ast.List) and len(e.elts) == 4:
      vs = [self.ex(x, env) for x in e.elts]
      if [t for _, t in vs] == ['S', 'S', 'N', 'N']:
        return '(%s, %s, %s, %s)' % tuple(t for t, _ in vs), 'CB'
      U(e, 'list of %s' % [t for _, t in vs])
    U(e, 'expression %s' % un(e))

  # ---- statements -------------------------------------------------------------------------------------------------------------
  def ret(self, term):
    return '(Accept %s)' % term if self.cfg.get('outcome') else term

  def block(self, body, env):
    if not body:
      U(ast.Pass(), 'function falls off its end')
    s, rest = body[0], body[1:]
    if isinstance(s, ast.Expr) and isinstance(s.value, ast.Constant):
      return self.block(rest, env)
    if isinstance(s, ast.Return):
      if s.value is None:
        U(s, 'bare return')
      if isinstance(s.value, ast.Name) and s.value.id in env and env[s.value.id][1] == 'DICT':
        if self.result is None:
          U(s, 'device returned before its bounds are set')
        return self.ret(self.result)
      v = self.ex(s.value, env)
      if v[1] != self.cfg['rtype']:
        U(s, 'returns %s, expected %s' % (v[1], self.cfg['rtype']))
      return self.ret(v[0])
    if isinstance(s, ast.Delete) and len(s.targets) == 1 and isinstance(s.targets[0], ast.Subscript) and isinstance(s.targets[0].value, ast.Name) and \
       s.targets[0].value.id in env and env[s.targets[0].value.id][1] == 'DICT' and isinstance(s.targets[0].slice, ast.Constant) and \
       s.targets[0].slice.value in self.cfg.get('deletable', ()):
      return self.block(rest, env)
    if isinstance(s, ast.If):
      c = self.ex(s.test, env)
      if c[1] != 'B':
        U(s, 'test of type %s' % c[1])
      # both branches set device['bounds'] and nothing else
      def only_result(b):
        if len(b) == 1 and isinstance(b[0], ast.Assign) and len(b[0].targets) == 1 and un(b[0].targets[0]) == "%s['bounds']" % self.cfg.get('dict', '?'):
          v = self.ex(b[0].value, env)
          if v[1] == 'TABLE':
            return v[0]
        U(s, 'branch')
      a, b = only_result(s.body), only_result(s.orelse)
      self.result = '(if %s then %s else %s)' % (c[0], a, b)
      return self.block(rest, env)
    if isinstance(s, ast.Assign) and len(s.targets) == 1:
      t = s.targets[0]
      # device = deepcopy(device)
      if isinstance(t, ast.Name) and t.id in env and env[t.id][1] == 'DICT':
        if un(s.value) == 'deepcopy(%s)' % t.id:
          return self.block(rest, env)
        U(s, 'rebinding of the device')
      # item_template = run['runs']['0']: KeyError when there is no run at 0
      if isinstance(t, ast.Name) and isinstance(s.value, ast.Subscript) and isinstance(s.value.slice, ast.Constant) and s.value.slice.value == '0':
        m = self.ex(s.value.value, env)
        if m[1] == 'RUNMAP' and self.cfg.get('outcome'):
          env2 = dict(env)
          env2[t.id] = (t.id, 'VAL')
          return '(match rlookup 0%%nat rmap with None => RaiseOther | Some %s => %s end)' % (t.id, self.block(rest, env2))
        U(s, 'lookup of key 0')
      # shape = (run['basis'], len(item_template)) if hasattr(item_template, '__len__') else (run['basis'],)
      if isinstance(t, ast.Name) and isinstance(s.value, ast.IfExp) and isinstance(s.value.test, ast.Call) and un(s.value.test.func) == 'hasattr':
        a, b = s.value.body, s.value.orelse
        tpl = s.value.test.args[0]
        if isinstance(a, ast.Tuple) and isinstance(b, ast.Tuple) and len(a.elts) == 2 and len(b.elts) == 1 and isinstance(tpl, ast.Name) and \
           tpl.id in env and env[tpl.id][1] == 'VAL' and un(s.value.test.args[1]) == "'__len__'" and un(a.elts[1]) == 'len(%s)' % tpl.id:
          d0, d1 = self.ex(a.elts[0], env), self.ex(b.elts[0], env)
          if d0 == d1 and d0[1] == 'N':
            env2 = dict(env)
            env2[t.id] = (d0[0], 'SHAPE')
            return self.block(rest, env2)
        U(s, 'shape')
      # _array = []
      if isinstance(t, ast.Name) and isinstance(s.value, ast.List) and not s.value.elts and self.cfg['rtype'] == 'CBL':
        env2 = dict(env)
        env2[t.id] = (t.id, 'CBL')
        return '(let %s := [] in %s)' % (t.id, self.block(rest, env2))
      if isinstance(t, ast.Name):
        v = self.ex(s.value, env)
        if v[1] in ('DICT', 'RUN', 'SHAPE'):
          U(s, 'alias of %s' % v[1])
        env2 = dict(env)
        env2[t.id] = (t.id, v[1])
        return '(let %s := %s in %s)' % (t.id, v[0], self.block(rest, env2))
      # device['bounds'] = table
      if un(t) == "%s['bounds']" % self.cfg.get('dict', '?'):
        v = self.ex(s.value, env)
        if v[1] != 'TABLE':
          U(s, 'bounds of type %s' % v[1])
        self.result = v[0]
        return self.block(rest, env)
      U(s, 'assignment target')
    if isinstance(s, ast.For) and not s.orelse:
      # for i, v in enumerate(points):
      if isinstance(s.target, ast.Tuple) and len(s.target.elts) == 2 and all(isinstance(x, ast.Name) for x in s.target.elts) and \
         isinstance(s.iter, ast.Call) and un(s.iter.func) == 'enumerate' and len(s.iter.args) == 1 and not s.iter.keywords:
        it = self.ex(s.iter.args[0], env)
        if it[1] != 'NL':
          U(s, 'enumerate of %s' % it[1])
        i, v = (x.id for x in s.target.elts)
        env2 = dict(env)
        env2[i], env2[v] = (i, 'N'), (v, 'N')
        st, body = self.loop_body(s.body, env2)
        return '(let %s := fold_left (fun %s \'(%s, %s) => %s) (enumerate %s) %s in %s)' % (st, st, i, v, body, it[0], st, self.block(rest, env))
      # for i in range(0, len(on), 2):
      if isinstance(s.target, ast.Name) and isinstance(s.iter, ast.Call) and un(s.iter.func) == 'range' and len(s.iter.args) == 3 and \
         un(s.iter.args[0]) == '0' and un(s.iter.args[2]) == '2':
        n = self.ex(s.iter.args[1], env)
        if n[1] != 'N':
          U(s, 'range bound of type %s' % n[1])
        env2 = dict(env)
        env2[s.target.id] = (s.target.id, 'N')
        st, body = self.loop_body(s.body, env2)
        return '(let %s := fold_left (fun %s %s => %s) (range_step2 %s) %s in %s)' % (st, st, s.target.id, body, n[0], st, self.block(rest, env))
      U(s, 'loop')
    U(s, 'statement')

  def loop_body(self, body, env):
    """assignments, then exactly one update of one array of the enclosing function -> (array name, new array term)"""
    if not body:
      U(ast.Pass(), 'loop without an update')
    s, rest = body[0], body[1:]
    if isinstance(s, ast.Assign) and len(s.targets) == 1:
      t = s.targets[0]
      if isinstance(t, ast.Name):
        if t.id in env and env[t.id][1] in ('ARR', 'MASK', 'CBL'):
          U(s, 'rebinding of the array')
        v = self.ex(s.value, env)
        env2 = dict(env)
        env2[t.id] = (t.id, v[1])
        st, b = self.loop_body(rest, env2)
        return st, '(let %s := %s in %s)' % (t.id, v[0], b)
      # [l, h] = run['runs'][v]
      if isinstance(t, (ast.List, ast.Tuple)) and len(t.elts) == 2 and all(isinstance(x, ast.Name) for x in t.elts):
        v = self.ex(s.value, env)
        if v[1] != 'VAL' or not self.cfg.get('pair_values'):
          U(s, 'unpacking of %s' % v[1])
        a, b = (x.id for x in t.elts)
        env2 = dict(env)
        env2[a], env2[b] = (a, 'S'), (b, 'S')
        st, body2 = self.loop_body(rest, env2)
        return st, "(let '(%s, %s) := %s in %s)" % (a, b, v[0], body2)
      # _array[a:b] = value
      if isinstance(t, ast.Subscript) and isinstance(t.value, ast.Name) and t.value.id in env and isinstance(t.slice, ast.Slice) and \
         t.slice.step is None and t.slice.lower is not None and t.slice.upper is not None and not rest:
        arr = env[t.value.id]
        lo, hi = self.ex(t.slice.lower, env), self.ex(t.slice.upper, env)
        if lo[1] != 'N' or hi[1] != 'N':
          U(s, 'slice limits of type %s, %s' % (lo[1], hi[1]))
        if arr[1] == 'ARR':
          v = self.ex(s.value, env)
          if v[1] != 'VAL':
            U(s, 'assigned value of type %s' % v[1])
          return arr[0], '(assign %s %s %s %s)' % (arr[0], lo[0], hi[0], v[0])
        if arr[1] == 'MASK' and un(s.value) == '1':
          return arr[0], '(assign %s %s %s n1)' % (arr[0], lo[0], hi[0])
        U(s, 'slice assignment to %s' % arr[1])
    # _array.append(x)
    if isinstance(s, ast.Expr) and isinstance(s.value, ast.Call) and isinstance(s.value.func, ast.Attribute) and s.value.func.attr == 'append' and \
       isinstance(s.value.func.value, ast.Name) and s.value.func.value.id in env and env[s.value.func.value.id][1] == 'CBL' and len(s.value.args) == 1 and not rest:
      v = self.ex(s.value.args[0], env)
      if v[1] != 'CB':
        U(s, 'appended value of type %s' % v[1])
      arr = env[s.value.func.value.id][0]
      return arr, '(%s ++ [%s])' % (arr, v[0])
    U(s, 'loop statement')


TARGETS = [
  # name, file, python parameters, section, Coq signature, cfg, fallback
  ('run_to_array', 'loaders/builder_loader.py', ['run'], 'V', '(zero : V) (basis : nat) (rmap : runs V) : outcome (list V)',
   {'zero': 'zero', 'outcome': True, 'rtype': 'ARR', 'env': {'run': ('run', 'RUN')}}, 'run_to_array zero basis rmap'),
  ('run_to_cbounds_array', 'loaders/builder_loader.py', ['run'], 'A', '(basis : nat) (rmap : runs (A * A)) : list (cbound A)',
   {'zero': '(n0, n0)', 'rtype': 'CBL', 'pair_values': True, 'env': {'run': ('run', 'RUN')}}, 'run_to_cbounds basis rmap'),
  ('care2bounds', 'utils.py', ['device'], 'A', '(care : list A) (bounds : list (param A)) : list (A * A)',
   {'rtype': 'TABLE', 'dict': 'device', 'deletable': ('care',), 'fields': {'care': ('care', 'MASK'), 'bounds': ('bounds', 'BOUNDS')},
    'env': {'device': ('device', 'DICT')}}, 'care2bounds care bounds'),
  ('on2bounds', 'utils.py', ['device', 'l'], 'A', '(l : nat) (on : list nat) (bounds : list (param A)) : list (A * A)',
   {'rtype': 'TABLE', 'dict': 'device', 'deletable': ('on',), 'mask_zero': 'n0', 'fields': {'on': ('on', 'NL'), 'bounds': ('bounds', 'BOUNDS')},
    'env': {'device': ('device', 'DICT'), 'l': ('l', 'N')}}, 'on2bounds l on bounds'),
]


# ---- the per-kind loaders of builder_loader.py: the exported device dictionary `d` is the record bdev -----------------------
KIND_OF = {'load': 'BLoad', 'fixed_load': 'BFixed', 'supply': 'BSupply', 'storage': 'BStorage', 'thermal_load': 'BThermal'}
CLASS_OF = {'ADevice': 'LADevice', 'SDevice': 'LSDevice'}


def cstr(x):
  if not isinstance(x, str) or '"' in x:
    raise Unsupported('?:?:string %r' % (x,))
  return '"%s"%%string' % x


class LTx:
  """statements of one loader function, in continuation-passing style for the calls that may raise (run_to_array)"""
  def __init__(self):
    self.n = 0

  def fresh(self, base):
    self.n += 1
    return '%s_%d' % (base, self.n)

  def is_d(self, e, env, key):
    return isinstance(e, ast.Subscript) and isinstance(e.value, ast.Name) and e.value.id in env and env[e.value.id][1] == 'D' and \
        isinstance(e.slice, ast.Constant) and e.slice.value == key

  def is_param(self, e, env):
    """d['parameters'][<const>] -> key"""
    if isinstance(e, ast.Subscript) and self.is_d(e.value, env, 'parameters') and isinstance(e.slice, ast.Constant) and isinstance(e.slice.value, str):
      return e.slice.value
    return None

  def ex(self, e, env, k):
    """k : (term, type) -> Coq text of the rest of the computation (an outcome)"""
    if isinstance(e, ast.Name):
      if e.id in env:
        return k(env[e.id])
      U(e, 'name %s' % e.id)
    if isinstance(e, ast.Constant) and e.value is None:
      return k(('None', 'NONE'))
    # d['title'] if 'title' in d else d['type']
    if isinstance(e, ast.IfExp) and isinstance(e.test, ast.Compare) and len(e.test.ops) == 1 and isinstance(e.test.ops[0], ast.In) and \
       isinstance(e.test.left, ast.Constant) and e.test.left.value == 'title' and isinstance(e.test.comparators[0], ast.Name) and \
       env.get(e.test.comparators[0].id, (None, None))[1] == 'D' and self.is_d(e.body, env, 'title') and self.is_d(e.orelse, env, 'type'):
      return k(('(match b_title d with Some t => t | None => type_name (b_kind d) end)', 'ID'))
    if isinstance(e, ast.Call):
      f = un(e.func)
      kws = {kw.arg: kw.value for kw in e.keywords}
      if f == 'run_to_array' and len(e.args) == 1 and not kws and self.is_d(e.args[0], env, 'bounds'):
        v = self.fresh('t')
        return '(obind (run_to_array_gen (n0, n0) basis (b_bounds d)) (fun %s => %s))' % (v, k((v, 'TABLE')))
      if f == 'load_cbounds' and len(e.args) == 1 and not kws and isinstance(e.args[0], ast.Name) and env.get(e.args[0].id, (0, 0))[1] == 'D':
        return k(('(load_cbounds_gen basis d)', 'OCB'))
      if f == 'load_cost_function':
        return k(('tt', 'SKIP'))       # cost curves are not part of the loader model
      if f == 'np.stack' and len(e.args) == 1 and set(kws) == {'axis'} and un(kws['axis']) == '1' and isinstance(e.args[0], ast.Tuple) and len(e.args[0].elts) == 2:
        return self.ex(e.args[0].elts[0], env, lambda a: self.ex(e.args[0].elts[1], env, lambda b:
            k(('(stack_cols %s %s)' % (a[0], b[0]), 'TABLE')) if (a[1], b[1]) == ('VEC', 'VEC') else U(e, 'np.stack of %s, %s' % (a[1], b[1]))))
      if f == 'tuple' and len(e.args) == 1 and not kws:
        return self.ex(e.args[0], env, lambda a: k(a) if a[1] == 'CLIP' else U(e, 'tuple of %s' % a[1]))
      if isinstance(e.func, ast.Attribute) and e.func.attr in ('all', 'any') and not e.args and not kws:
        fn = 'forallb' if e.func.attr == 'all' else 'existsb'
        return self.ex(e.func.value, env, lambda a: k(('(%s (fun b => b) %s)' % (fn, a[0]), 'B')) if a[1] == 'BVEC' else U(e, '.%s() of %s' % (e.func.attr, a[1])))
      # device_kit.<Class>(device_id, basis, bounds[, cbounds], **params)
      if isinstance(e.func, ast.Attribute) and un(e.func.value) == 'device_kit' and e.func.attr in CLASS_OF:
        pos = e.args
        star = [kw for kw in e.keywords if kw.arg is None]
        if any(kw.arg is not None for kw in e.keywords) or len(star) > 1 or not (3 <= len(pos) <= 4):
          U(e, 'constructor call')
        def with_args(vals):
          tys = [t for _, t in vals]
          if tys[:3] != ['ID', 'N', 'TABLE'] or (len(vals) == 4 and tys[3] != 'OCB'):
            U(e, 'constructor arguments %s' % tys)
          cb = vals[3][0] if len(vals) == 4 else 'None'
          if star:
            pv = env.get(un(star[0].value))
            if pv is None or pv[1] != 'PARAMS':
              U(e, '**%s' % un(star[0].value))
            ps, clip = pv[0], pv[2] if len(pv) > 2 and pv[2] else '(None, None)'
          else:
            ps, clip = '[]', '(None, None)'
          return k(('(construct_id %s %s %s %s %s %s)' % (vals[0][0], CLASS_OF[e.func.attr], vals[2][0], cb, ps, clip), 'OUT'))
        def go(i, acc):
          if i == len(pos):
            return with_args(acc)
          return self.ex(pos[i], env, lambda a: go(i + 1, acc + [a]))
        return go(0, [])
      U(e, 'call %s' % f)
    if isinstance(e, ast.BinOp) and isinstance(e.op, ast.Mult) and un(e.left) == '-1':
      return self.ex(e.right, env, lambda a: k(('(table_neg %s)' % a[0], 'TABLE')) if a[1] == 'TABLE' else U(e, '-1 * %s' % a[1]))
    # bounds[:, j]
    if isinstance(e, ast.Subscript) and isinstance(e.slice, ast.Tuple) and len(e.slice.elts) == 2 and un(e.slice.elts[0]) == ':' and \
       isinstance(e.slice.elts[1], ast.Constant) and e.slice.elts[1].value in (0, 1):
      j = e.slice.elts[1].value
      return self.ex(e.value, env, lambda a: k(('(map %s %s)' % ('fst' if j == 0 else 'snd', a[0]), 'VEC')) if a[1] == 'TABLE' else U(e, 'column of %s' % a[1]))
    if isinstance(e, ast.Compare) and len(e.ops) == 1 and isinstance(e.ops[0], (ast.NotEq, ast.Eq)):
      neg = isinstance(e.ops[0], ast.NotEq)
      return self.ex(e.left, env, lambda a: self.ex(e.comparators[0], env, lambda b:
          k(('(map (fun ab => %s(fst ab =? snd ab)) (combine %s %s))' % ('negb ' if neg else '', a[0], b[0]), 'BVEC'))
          if (a[1], b[1]) == ('VEC', 'VEC') else U(e, 'comparison of %s, %s' % (a[1], b[1]))))
    if isinstance(e, ast.Dict):
      if not e.keys:
        return k(('[]', 'PARAMS', None))
      if all(isinstance(x, ast.Constant) and isinstance(x.value, str) for x in e.keys) and all(isinstance(x, ast.Constant) and isinstance(x.value, str) for x in e.values):
        return k(('[%s]' % '; '.join('(%s, %s)' % (cstr(a.value), cstr(b.value)) for a, b in zip(e.keys, e.values)), 'SMAP'))
      U(e, 'dictionary display')
    # { parameter_map[k]: v for k, v in d['parameters'].items() if k in parameter_map }
    if isinstance(e, ast.DictComp) and len(e.generators) == 1:
      g = e.generators[0]
      if isinstance(g.target, ast.Tuple) and len(g.target.elts) == 2 and all(isinstance(x, ast.Name) for x in g.target.elts) and \
         isinstance(g.iter, ast.Call) and isinstance(g.iter.func, ast.Attribute) and g.iter.func.attr == 'items' and self.is_d(g.iter.func.value, env, 'parameters') and len(g.ifs) == 1:
        kk, vv = (x.id for x in g.target.elts)
        t = g.ifs[0]
        if isinstance(t, ast.Compare) and len(t.ops) == 1 and isinstance(t.ops[0], ast.In) and un(t.left) == kk and isinstance(t.comparators[0], ast.Name) and \
           env.get(t.comparators[0].id, (0, 0))[1] == 'SMAP' and un(e.key) == '%s[%s]' % (t.comparators[0].id, kk) and un(e.value) == vv:
          return k(('(remap %s (b_params d))' % env[t.comparators[0].id][0], 'PARAMS', None))
      U(e, 'dictionary comprehension')
    if isinstance(e, ast.List) and len(e.elts) == 2 and all(isinstance(x, ast.Constant) and x.value is None for x in e.elts):
      return k((['None', 'None'], 'CLIPLIST'))
    U(e, 'expression %s' % un(e))

  def block(self, body, env):
    if not body:
      U(ast.Pass(), 'function falls off its end')
    s, rest = body[0], body[1:]
    if isinstance(s, ast.Expr) and (isinstance(s.value, ast.Constant) or (isinstance(s.value, ast.Call) and un(s.value.func).startswith('logger.'))):
      return self.block(rest, env)
    if isinstance(s, ast.Return) and s.value is not None:
      return self.ex(s.value, env, lambda a: a[0] if a[1] == 'OUT' else U(s, 'returns %s' % a[1]))
    if isinstance(s, ast.Assign) and len(s.targets) == 1:
      t = s.targets[0]
      if isinstance(t, ast.Name):
        def bind(a):
          env2 = dict(env)
          if a[1] in ('SKIP',):
            env2[t.id] = a
            return self.block(rest, env2)
          if a[1] == 'CLIPLIST':
            env2[t.id] = a
            return self.block(rest, env2)
          if a[1] == 'PARAMS':
            v = self.fresh(t.id)
            env2[t.id] = (v, 'PARAMS', a[2] if len(a) > 2 else None)
            return '(let %s := %s in %s)' % (v, a[0], self.block(rest, env2))
          v = self.fresh(t.id)
          env2[t.id] = (v, a[1])
          return '(let %s := %s in %s)' % (v, a[0], self.block(rest, env2))
        return self.ex(s.value, env, bind)
      # params['rate_clip'] = tuple(rate_clip)
      if isinstance(t, ast.Subscript) and isinstance(t.value, ast.Name) and env.get(t.value.id, (0, 0))[1] == 'PARAMS' and \
         isinstance(t.slice, ast.Constant) and t.slice.value == 'rate_clip' and un(s.value).startswith('tuple(') and isinstance(s.value, ast.Call) and \
         len(s.value.args) == 1 and isinstance(s.value.args[0], ast.Name) and env.get(s.value.args[0].id, (0, 0))[1] == 'CLIPLIST':
        cl = env[s.value.args[0].id][0]
        env2 = dict(env)
        pv = env[t.value.id]
        env2[t.value.id] = (pv[0], 'PARAMS', '(%s, %s)' % (cl[0], cl[1]))
        return self.block(rest, env2)
      U(s, 'assignment target %s' % un(t))
    if isinstance(s, ast.If) and not s.orelse:
      # if cost_function: params = {'f': ...}      (cost curves are not modelled: no effect on the loaded record)
      if isinstance(s.test, ast.Name) and env.get(s.test.id, (0, 0))[1] == 'SKIP' and len(s.body) == 1 and isinstance(s.body[0], ast.Assign) and \
         isinstance(s.body[0].targets[0], ast.Name) and env.get(s.body[0].targets[0].id, (0, 0))[1] == 'PARAMS' and isinstance(s.body[0].value, ast.Dict) and \
         [un(x) for x in s.body[0].value.keys] == ["'f'"]:
        return self.block(rest, env)
      # if 'K' in d['parameters']: rate_clip[i] = d['parameters']['K']
      if isinstance(s.test, ast.Compare) and len(s.test.ops) == 1 and isinstance(s.test.ops[0], ast.In) and isinstance(s.test.left, ast.Constant) and \
         isinstance(s.test.left.value, str) and self.is_d(s.test.comparators[0], env, 'parameters') and len(s.body) == 1 and isinstance(s.body[0], ast.Assign):
        a = s.body[0]
        t = a.targets[0]
        if isinstance(t, ast.Subscript) and isinstance(t.value, ast.Name) and env.get(t.value.id, (0, 0))[1] == 'CLIPLIST' and \
           isinstance(t.slice, ast.Constant) and t.slice.value in (0, 1) and self.is_param(a.value, env) == s.test.left.value:
          cl = list(env[t.value.id][0])
          cl[t.slice.value] = '(match pget %s (b_params d) with Some v => Some v | None => %s end)' % (cstr(s.test.left.value), cl[t.slice.value])
          env2 = dict(env)
          env2[t.value.id] = (cl, 'CLIPLIST')
          return self.block(rest, env2)
      # if <test>: raise Exception(...)
      if len(s.body) == 1 and isinstance(s.body[0], ast.Raise) and isinstance(s.body[0].exc, ast.Call) and un(s.body[0].exc.func) == 'Exception':
        return self.ex(s.test, env, lambda c: '(if %s then RaiseOther else %s)' % (c[0], self.block(rest, env)) if c[1] == 'B' else U(s, 'test of type %s' % c[1]))
      U(s, 'conditional')
    U(s, 'statement')


def translate_loader(fn):
  names = [a.arg for a in fn.args.args]
  if names != ['d', 'basis']:
    U(fn, 'parameters %s' % names)
  return LTx().block(list(fn.body), {'d': ('d', 'D'), 'basis': ('basis', 'N')})


def translate_load_cbounds(fn):
  if [a.arg for a in fn.args.args] != ['d']:
    U(fn, 'parameters')
  body = [s for s in fn.body if not (isinstance(s, ast.Expr) and isinstance(s.value, ast.Constant))]
  if len(body) == 1 and isinstance(body[0], ast.If) and not body[0].orelse and un(body[0].test) == "'cumulative_bounds' in d":
    inner = [s for s in body[0].body if not (isinstance(s, ast.Expr) and isinstance(s.value, ast.Call) and un(s.value.func).startswith('logger.'))]
    if len(inner) == 1 and isinstance(inner[0], ast.Return) and un(inner[0].value) == "run_to_cbounds_array(d['cumulative_bounds'])":
      return '(match b_cum d with Some r => Some (run_to_cbounds_array_gen basis r) | None => None end)'
  U(fn, 'load_cbounds')


def translate_load_data(fn, kinds):
  """basis = data['basis']; data = data['devices']; devices = []; for d in data: loader = globals()['load_%s_device' % (d['type'],)];
  devices.append(loader(d, basis)); return device_kit.DeviceSet(<name>, devices)      ->  a left-to-right fold in the outcome monad"""
  if [a.arg for a in fn.args.args] != ['data']:
    U(fn, 'parameters')
  body = [s for s in fn.body if not (isinstance(s, ast.Expr) and (isinstance(s.value, ast.Constant) or un(getattr(s.value, 'func', s.value)).startswith('logger.')))]
  if len(body) != 5 or un(body[0]) != "basis = data['basis']" or un(body[1]) != "data = data['devices']" or un(body[2]) != 'devices = []':
    U(fn, 'load_data prologue')
  loop, ret = body[3], body[4]
  if not (isinstance(loop, ast.For) and un(loop.target) == 'd' and un(loop.iter) == 'data' and not loop.orelse):
    U(loop, 'load_data loop')
  lb = [s for s in loop.body if not (isinstance(s, ast.Expr) and isinstance(s.value, ast.Call) and un(s.value.func).startswith('logger.'))]
  if [un(x) for x in lb] != ["loader = globals()['load_%s_device' % (d['type'],)]", 'devices.append(loader(d, basis))']:
    U(loop, 'load_data loop body')
  if not (isinstance(ret, ast.Return) and isinstance(ret.value, ast.Call) and un(ret.value.func) == 'device_kit.DeviceSet' and len(ret.value.args) == 2 and un(ret.value.args[1]) == 'devices'):
    U(ret, 'load_data result')
  return '(fold_left (fun acc d => obind acc (fun devices => obind (load_device_gen basis d) (fun x => Accept (devices ++ [x])))) data (Accept []))'


LOADER_TARGETS = [('load', 'load_load_device'), ('fixed_load', 'load_fixed_load_device'), ('supply', 'load_supply_device'), ('storage', 'load_storage_device')]


def gen_kind_loaders(fns):
  """-> (lines, translated, untranslated)"""
  out, tr, untr = [], [], []
  def emit(name, sig, f, fallback):
    head = 'Definition %s_gen %s :=' % (name, sig)
    try:
      if name not in fns:
        raise Unsupported('?:Module:%s not found' % name)
      body = f(fns[name])
      tr.append(name + '_gen')
      out.append('(* builder_loader.py: %s *)' % name)
    except Unsupported as e:
      body = fallback
      untr.append(name + '_gen')
      out.append('(* builder_loader.py: %s NOT TRANSLATED (%s): alias of the hand-written model, tie falls back to the correspondence *)' % (name, str(e).replace('*)', '* )')))
    out.append(head + '\n  ' + body + '.\n')
  emit('load_cbounds', '(basis : nat) (d : bdev A) : option (list (cbound A))', translate_load_cbounds, 'option_map (run_to_cbounds basis) (b_cum d)')
  for kind, name in LOADER_TARGETS:
    emit(name, '(basis : nat) (d : bdev A) : outcome (loaded A)', translate_loader,
         'load_device basis {| b_kind := %s; b_title := b_title d; b_bounds := b_bounds d; b_cum := b_cum d; b_params := b_params d |}' % KIND_OF[kind])
  # the dispatch by name: globals()['load_%s_device' % d['type']]   (load_thermal_load_device is not translated: the model's outcome, see the open finding)
  out.append('Definition load_device_gen (basis : nat) (d : bdev A) : outcome (loaded A) :=\n  match b_kind d with %s | BThermal => load_device basis d end.\n' % (
      ' | '.join('%s => %s_gen basis d' % (KIND_OF[k], n) for k, n in LOADER_TARGETS)))
  emit('load_data', '(basis : nat) (data : list (bdev A)) : outcome (list (loaded A))', lambda f: translate_load_data(f, None),
       'load_data basis data')
  return out, tr, untr


def translate(fn, params, cfg):
  names = [a.arg for a in fn.args.args]
  if names != params or fn.args.defaults or fn.args.kwonlyargs or fn.args.vararg or fn.args.kwarg:
    U(fn, 'parameters %s' % names)
  tx = Tx(cfg)
  body = list(fn.body)
  if cfg.get('dict'):
    # the input is copied before anything is changed (the helpers do not modify their input)
    first = [s for s in body if not (isinstance(s, ast.Expr) and isinstance(s.value, ast.Constant))][:1]
    if not first or un(first[0]) != '%s = deepcopy(%s)' % (cfg['dict'], cfg['dict']):
      U(fn, 'the device is not deep-copied first')
  return tx.block(body, dict(cfg['env']))


def gen_loaders(repo):
  out = ['(* GENERATED by translator/loaders_tx.py from device_kit/loaders/builder_loader.py and device_kit/utils.py -- do not edit. *)',
         'From Coq Require Import ZArith List Bool Arith.', 'From DK Require Import Num Vec.', 'From DK.Model Require Import Leaf Loader LoaderOps.',
         'From Coq Require Import String.', 'Import ListNotations.', '']
  trees = {}
  translated, untranslated = [], []
  defs = {'V': [], 'A': []}
  for (name, rel, params, sec, sig, cfg, fallback) in TARGETS:
    if rel not in trees:
      try:
        fname = os.path.join(repo, 'device_kit', rel)
        trees[rel] = {f.name: f for f in ast.parse(open(fname).read(), fname).body if isinstance(f, ast.FunctionDef)}
      except (SyntaxError, OSError):
        trees[rel] = {}
    head = 'Definition %s_gen %s :=' % (name, sig)
    try:
      if name not in trees[rel]:
        raise Unsupported('?:Module:%s not found' % name)
      body = translate(trees[rel][name], params, cfg)
      translated.append(name + '_gen')
      defs[sec].append('(* %s: %s *)' % (os.path.basename(rel), name))
    except Unsupported as e:
      body = fallback
      untranslated.append(name + '_gen')
      defs[sec].append('(* %s: %s NOT TRANSLATED (%s): alias of the hand-written model, tie falls back to the correspondence *)' % (
          os.path.basename(rel), name, str(e).replace('*)', '* )')))
    defs[sec].append(head + '\n  ' + body + '.\n')
  out += ['Section GenRuns.', 'Context {V : Type}.'] + defs['V'] + ['End GenRuns.', '']
  kl, ktr, kuntr = gen_kind_loaders(trees.get('loaders/builder_loader.py', {}))
  translated += ktr
  untranslated += kuntr
  out += ['Section GenLoaders.', 'Context {A : Type} `{Num A}.', 'Local Open Scope num_scope.'] + defs['A'] + kl + ['End GenLoaders.']
  out.append('From Coq Require Import String.')
  out.append('Definition loaders_translated : list String.string := [%s]%%string.' % '; '.join('"%s"' % x for x in translated))
  out.append('Definition loaders_untranslated : list String.string := [%s]%%string.' % '; '.join('"%s"' % x for x in untranslated))
  return '\n'.join(out) + '\n'


if __name__ == '__main__':
  import sys
  print(gen_loaders(sys.argv[1] if len(sys.argv) > 1 else '/repo'))
