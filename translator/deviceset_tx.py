"""DeviceSet (device_kit/deviceset.py): shapes / shape / partition / costv / cost / deriv / hess / bounds / project  ->  coq/Gen/DeviceSet.v.

The children are abstract: a `kid` record (Model/SetOps.v) holds a child's row count, horizon, cost, deriv, hess, bounds and project,
so the generated definitions say exactly how ONE set level composes whatever its children do; Proofs/GenDeviceSet.v instantiates the
children with the tree model of Model/Tree.v and proves one level of the recursion equal, hence (by the induction of C02) every tree.

Typed whitelist (S scalar, V flat flow, M matrix, LM list of matrices, PRICE the price in whatever shape, N nat, NV vector of nats,
NP pair of nats, NPS list of pairs, SHAPE, KIDS, KID, CUBE bounds table).  Graceful per method: outside the whitelist -> alias of the
hand-written model term, listed in deviceset_untranslated.
"""
import ast
import os


class Unsupported(Exception):
  pass


def U(node, why):
  raise Unsupported('%s:%s:%s' % (getattr(node, 'lineno', '?'), type(node).__name__, why))


COQTYPE = {'S': 'A', 'V': 'list A', 'M': 'list (list A)', 'PRICE': 'price', 'N': 'nat', 'NV': 'list nat', 'NP': 'nat * nat',
           'NPS': 'list (nat * nat)', 'SHAPE': 'nat * nat', 'CUBE': 'list (A * A)', 'LM': 'list (list (list A))'}
DECL = '(kids : list kid) (n : nat)'

# (name, is property, parameters, result type, fallback over the same binders)
TARGETS = [
  ('shapes', True, [], 'NPS', 'map (fun d => (k_rows d, k_len d)) kids'),
  ('shape', True, [], 'SHAPE', '(nsum (map fst (DeviceSet_shapes kids n)), n)'),
  ('partition', True, [], 'NPS', 'pairs_from 0 (map fst (DeviceSet_shapes kids n))'),
  ('costv', False, ['s:V', 'p:PRICE'], 'V', 'set_costv kids (DeviceSet_partition kids n) (DeviceSet_shape kids n) s p'),
  ('cost', False, ['s:V', 'p:PRICE'], 'S', 'vsum (DeviceSet_costv kids n s p)'),
  ('deriv', False, ['s:V', 'p:PRICE'], 'M', 'set_deriv kids (DeviceSet_partition kids n) (DeviceSet_shape kids n) s p'),
  ('hess', False, ['s:V', 'p:PRICE'], 'M', 'set_hess kids (DeviceSet_partition kids n) (DeviceSet_shape kids n) s p'),
  ('bounds', True, [], 'CUBE', 'concat (map k_bounds kids)'),
  ('project', False, ['s:V'], 'M', 'set_project kids (DeviceSet_partition kids n) (DeviceSet_shape kids n) s'),
]
SIG = {t[0]: t for t in TARGETS}


class Tx:
  def __init__(self, tree):
    self.clsnode = next(c for c in tree.body if isinstance(c, ast.ClassDef) and c.name == 'DeviceSet')

  def method(self, name, prop):
    for n in self.clsnode.body:
      if isinstance(n, ast.FunctionDef) and n.name == name:
        is_prop = any(isinstance(d, ast.Name) and d.id == 'property' for d in n.decorator_list)
        is_setter = any(isinstance(d, ast.Attribute) and d.attr == 'setter' for d in n.decorator_list)
        if is_prop == prop and not is_setter:
          return n
    U(self.clsnode, 'method %s' % name)

  def check_devices(self):
    """self.devices is the constructor argument: property returning self._devices, assigned once in __init__ from `devices`;
    len(self) is self._length = len(devices[0])."""
    p = self.method('devices', True)
    body = [s for s in p.body if not (isinstance(s, ast.Expr) and isinstance(s.value, ast.Constant))]
    if not (len(body) == 1 and isinstance(body[0], ast.Return) and ast.unparse(body[0].value) == 'self._devices'):
      U(p, 'devices property')
    init = self.method('__init__', False)
    a = [ast.unparse(s.value) for s in init.body if isinstance(s, ast.Assign) and ast.unparse(s.targets[0]) == 'self._devices']
    l = [ast.unparse(s.value) for s in init.body if isinstance(s, ast.Assign) and ast.unparse(s.targets[0]) == 'self._length']
    ln = self.method('__len__', False)
    lb = [s for s in ln.body if not (isinstance(s, ast.Expr) and isinstance(s.value, ast.Constant))]
    if a != ['devices'] or l != ['len(devices[0])'] or not (len(lb) == 1 and isinstance(lb[0], ast.Return) and ast.unparse(lb[0].value) == 'self._length'):
      U(init, '_devices / _length')

  # ---- expressions -> (term, type)
  def ex(self, e, env):
    if isinstance(e, ast.Constant) and isinstance(e.value, int) and not isinstance(e.value, bool):
      return str(e.value), 'I'
    if isinstance(e, ast.Name):
      if e.id in env:
        return env[e.id]
      U(e, 'name %s' % e.id)
    if isinstance(e, ast.Attribute):
      if isinstance(e.value, ast.Name) and e.value.id == 'self':
        if e.attr == 'devices':
          self.check_devices()
          return 'kids', 'KIDS'
        if e.attr in SIG and SIG[e.attr][1]:
          return '(DeviceSet_%s kids n)' % e.attr, SIG[e.attr][3]
        U(e, 'attribute self.%s' % e.attr)
      t, ty = self.ex(e.value, env)
      if ty == 'KID' and e.attr == 'shape':
        return '(k_rows %s, k_len %s)' % (t, t), 'NP'
      if ty == 'KID' and e.attr == 'bounds':
        return '(k_bounds %s)' % t, 'CUBE'
      U(e, 'attribute .%s of %s' % (e.attr, ty))
    if isinstance(e, ast.Tuple) and len(e.elts) == 2:
      a, ta = self.ex(e.elts[0], env)
      b, tb = self.ex(e.elts[1], env)
      if (ta, tb) == ('N', 'N'):
        return '(%s, %s)' % (a, b), 'SHAPE'
      U(e, 'tuple of %s, %s' % (ta, tb))
    if isinstance(e, ast.BinOp):
      a, ta = self.ex(e.left, env)
      b, tb = self.ex(e.right, env)
      if isinstance(e.op, ast.Mult) and (ta, tb) == ('PRICE', 'ONES'):
        return '(price_rows (fst %s) (snd %s) %s)' % (b, b, a), 'M'
      if isinstance(e.op, ast.Add) and (ta, tb) == ('N', 'N'):
        return '(%s + %s)%%nat' % (a, b), 'N'
      if isinstance(e.op, ast.Add) and (ta, tb) == ('NV', 'NV'):
        return '(map2 Nat.add %s %s)' % (a, b), 'NV'
      U(e, 'operator on %s, %s' % (ta, tb))
    if isinstance(e, ast.Subscript):
      return self.subscript(e, env)
    if isinstance(e, ast.Call):
      return self.call(e, env)
    if isinstance(e, ast.ListComp):
      return self.listcomp(e, env)
    U(e, 'expression')

  def subscript(self, e, env):
    v, tv = self.ex(e.value, env)
    sl = e.slice
    full = lambda x: isinstance(x, ast.Slice) and x.lower is None and x.upper is None and x.step is None
    if isinstance(sl, ast.Tuple) and len(sl.elts) == 2:
      a, b = sl.elts
      # X[:, 0] of a list of pairs
      if tv == 'NPS' and full(a) and isinstance(b, ast.Constant) and b.value in (0, 1):
        return '(map %s %s)' % ('fst' if b.value == 0 else 'snd', v), 'NV'
      # M[a:a+r, :]
      if tv == 'M' and full(b) and isinstance(a, ast.Slice) and a.step is None and a.lower is not None and a.upper is not None:
        lo, tl = self.ex(a.lower, env)
        up = a.upper
        if tl == 'N' and isinstance(up, ast.BinOp) and isinstance(up.op, ast.Add) and ast.dump(up.left) == ast.dump(a.lower):
          r, tr = self.ex(up.right, env)
          if tr == 'N':
            return '(rslice %s %s %s)' % (lo, r, v), 'M'
      U(e, 'subscript')
    if tv == 'NP' and isinstance(sl, ast.Constant) and sl.value in (0, 1):
      return '(%s %s)' % ('fst' if sl.value == 0 else 'snd', v), 'N'
    if tv == 'NV' and isinstance(sl, ast.Constant) and sl.value == 0:
      return '(hd 0%%nat %s)' % v, 'N'
    U(e, 'subscript of %s' % tv)

  def call(self, e, env):
    f = e.func
    if isinstance(f, ast.Name):
      if f.id == 'len' and len(e.args) == 1 and isinstance(e.args[0], ast.Name) and e.args[0].id == 'self':
        self.check_devices()
        return 'n', 'N'
      if f.id == 'list' and len(e.args) == 1:
        t, ty = self.ex(e.args[0], env)
        if ty in ('NPS', 'NV'):
          return t, ty
      if f.id == 'zip' and len(e.args) == 2:
        a, ta = self.ex(e.args[0], env)
        b, tb = self.ex(e.args[1], env)
        if (ta, tb) == ('NV', 'NV'):
          return '(combine %s %s)' % (a, b), 'NPS'
        if (ta, tb) == ('KIDS', 'NPS'):
          return '(combine %s %s)' % (a, b), 'KPS'
      U(e, 'call of %s' % f.id)
    if not isinstance(f, ast.Attribute):
      U(e, 'call')
    if isinstance(f.value, ast.Name) and f.value.id == 'np':
      kws = {k.arg: ast.unparse(k.value) for k in e.keywords}
      if f.attr == 'array' and len(e.args) == 1 and kws in ({}, {'dtype': 'int'}):
        t, ty = self.ex(e.args[0], env)
        if ty in ('NPS', 'NV', 'V', 'LM'):
          return t, ty
        U(e, 'np.array of %s' % ty)
      if f.attr == 'ones' and len(e.args) == 1 and not kws:
        t, ty = self.ex(e.args[0], env)
        if ty == 'SHAPE':
          return t, 'ONES'
      if f.attr == 'roll' and len(e.args) == 2 and not kws and isinstance(e.args[1], ast.Constant) and e.args[1].value == 1:
        t, ty = self.ex(e.args[0], env)
        if ty == 'NV':
          return '(np_roll1 %s)' % t, 'NV'
      if f.attr == 'vstack' and len(e.args) == 1 and not kws:
        t, ty = self.ex(e.args[0], env)
        if ty == 'LM':
          return '(concat %s)' % t, 'M'
      if f.attr == 'concatenate' and len(e.args) == 1 and not kws:
        t, ty = self.ex(e.args[0], env)
        if ty == 'LCUBE':
          return '(concat %s)' % t, 'CUBE'
      U(e, 'np.%s' % f.attr)
    kws = {k.arg: ast.unparse(k.value) for k in e.keywords}
    if f.attr == 'cumsum' and not e.args and not kws:
      t, ty = self.ex(f.value, env)
      if ty == 'NV':
        return '(np_cumsum %s)' % t, 'NV'
    if f.attr == 'sum' and not e.args:
      t, ty = self.ex(f.value, env)
      if ty == 'V' and not kws:
        return '(vsum %s)' % t, 'S'
      if ty == 'NPS' and kws == {'axis': '0'}:
        return '(nsum (map fst %s), nsum (map snd %s))' % (t, t), 'NP'
      if ty == 'LM' and kws == {'axis': '0'}:
        return '(msum n %s)' % t, 'M'
      U(e, '.sum(%s) of %s' % (kws, ty))
    if f.attr == 'reshape' and len(e.args) == 1 and not kws:
      t, ty = self.ex(f.value, env)
      sh, ts = self.ex(e.args[0], env)
      if ty == 'V' and ts == 'SHAPE':
        return '(reshape (fst %s) (snd %s) %s)' % (sh, sh, t), 'M'
      U(e, 'reshape of %s to %s' % (ty, ts))
    # sibling methods
    if isinstance(f.value, ast.Name) and f.value.id == 'self' and f.attr in SIG and not SIG[f.attr][1] and not kws:
      sig = SIG[f.attr]
      args = [self.ex(a, env) for a in e.args]
      if [x[1] for x in args] == [q.split(':')[1] for q in sig[2]]:
        return '(DeviceSet_%s kids n%s)' % (f.attr, ''.join(' ' + x[0] for x in args)), sig[3]
      U(e, 'argument types of self.%s' % f.attr)
    # a child's methods
    t, ty = self.ex(f.value, env)
    if ty == 'KID' and not kws:
      args = [self.ex(a, env) for a in e.args]
      tys = [x[1] for x in args]
      if f.attr in ('cost', 'deriv', 'hess') and tys == ['M', 'M']:
        return '(k_%s %s %s %s)' % (f.attr, t, args[0][0], args[1][0]), {'cost': 'S', 'deriv': 'M', 'hess': 'M'}[f.attr]
      if f.attr == 'project' and tys == ['M']:
        return '(k_project %s %s)' % (t, args[0][0]), 'M'
    U(e, 'call of .%s on %s' % (f.attr, ty))

  def listcomp(self, e, env):
    if len(e.generators) != 1 or e.generators[0].ifs:
      U(e, 'comprehension')
    g = e.generators[0]
    it, ti = self.ex(g.iter, env)
    env2 = dict(env)
    if ti == 'KIDS' and isinstance(g.target, ast.Name):
      d = g.target.id
      env2[d] = (d, 'KID')
      b, tb = self.ex(e.elt, env2)
      out = {'NP': 'NPS', 'CUBE': 'LCUBE'}.get(tb) or U(e, 'comprehension over children of %s' % tb)
      return '(map (fun %s => %s) %s)' % (d, b, it), out
    if ti == 'KPS' and isinstance(g.target, ast.Tuple) and len(g.target.elts) == 2 and all(isinstance(x, ast.Name) for x in g.target.elts):
      d, i = g.target.elts[0].id, g.target.elts[1].id
      env2[d], env2[i] = (d, 'KID'), (i, 'NP')
      b, tb = self.ex(e.elt, env2)
      out = {'S': 'V', 'M': 'LM'}.get(tb) or U(e, 'comprehension over (child, rows) of %s' % tb)
      return '(map (fun di => let %s := fst di in let %s := snd di in %s) %s)' % (d, i, b, it), out
    U(e, 'comprehension over %s' % ti)

  def stmts(self, body, env):
    if not body:
      U(ast.Pass(), 'falls off the end')
    s, rest = body[0], body[1:]
    if isinstance(s, ast.Expr) and isinstance(s.value, ast.Constant) and isinstance(s.value.value, str):
      return self.stmts(rest, env)
    if isinstance(s, ast.Return) and s.value is not None:
      return self.ex(s.value, env)
    if isinstance(s, ast.Assign) and len(s.targets) == 1 and isinstance(s.targets[0], ast.Name):
      t, ty = self.ex(s.value, env)
      nm = s.targets[0].id
      fresh = nm + "'" if nm in ('kids', 'n') else nm
      env2 = dict(env)
      env2[nm] = (fresh, ty)
      b, tb = self.stmts(rest, env2)
      return '(let %s := %s in %s)' % (fresh, t, b), tb
    # offset[0] = 0
    if isinstance(s, ast.Assign) and len(s.targets) == 1 and isinstance(s.targets[0], ast.Subscript) and isinstance(s.targets[0].value, ast.Name) and \
       isinstance(s.targets[0].slice, ast.Constant) and s.targets[0].slice.value == 0 and isinstance(s.value, ast.Constant) and s.value.value == 0:
      nm = s.targets[0].value.id
      if nm in env and env[nm][1] == 'NV':
        b, tb = self.stmts(rest, env)
        return '(let %s := np_set0 %s in %s)' % (env[nm][0], env[nm][0], b), tb
    U(s, 'statement')

  def translate(self, name, prop, params, rtype):
    m = self.method(name, prop)
    a = m.args
    if a.vararg or a.kwarg or a.kwonlyargs or a.posonlyargs:
      U(m, 'argument list')
    names = [x.arg for x in a.args][1:]
    if names != [p.split(':')[0] for p in params]:
      U(m, 'parameters %s' % names)
    env = {p.split(':')[0]: (p.split(':')[0], p.split(':')[1]) for p in params}
    t, ty = self.stmts(m.body, env)
    if ty == 'NP' and rtype == 'SHAPE':
      ty = 'SHAPE'
    if ty != rtype:
      U(m, 'result type %s, expected %s' % (ty, rtype))
    return t


def gen_deviceset(repo):
  fname = os.path.join(repo, 'device_kit', 'deviceset.py')
  out = ['(* GENERATED by translator/deviceset_tx.py from device_kit/deviceset.py -- do not edit. *)',
         'From Coq Require Import ZArith List Bool Arith.', 'From DK Require Import Num Vec.', 'From DK.Model Require Import Leaf Fn Dev Tree SetOps.',
         'Import ListNotations.', 'Section GenDeviceSet.', 'Context {A : Type} `{Num A}.', 'Local Open Scope num_scope.',
         'Notation kid := (kid A).', 'Notation price := (price A).', '']
  try:
    tx = Tx(ast.parse(open(fname).read(), fname))
  except (SyntaxError, StopIteration, OSError):
    tx = None
  translated, untranslated = [], []
  for (m, prop, params, rtype, fallback) in TARGETS:
    binders = ' '.join('(%s : %s)' % (p.split(':')[0], COQTYPE[p.split(':')[1]]) for p in params)
    head = 'Definition DeviceSet_%s %s %s : %s :=' % (m, DECL, binders, COQTYPE[rtype])
    try:
      if tx is None:
        raise Unsupported('?:Module:cannot parse deviceset.py')
      body = tx.translate(m, prop, params, rtype)
      translated.append('DeviceSet_' + m)
      out.append('(* deviceset.py: DeviceSet.%s *)' % m)
    except Unsupported as e:
      body = fallback
      untranslated.append('DeviceSet_' + m)
      out.append('(* deviceset.py: DeviceSet.%s NOT TRANSLATED (%s): alias of the hand-written model, tie falls back to the correspondence *)' % (
          m, str(e).replace('*)', '* )')))
    out.append(head + '\n  ' + body + '.\n')
  out.append('End GenDeviceSet.')
  out.append('From Coq Require Import String.')
  out.append('Definition deviceset_translated : list String.string := [%s]%%string.' % '; '.join('"%s"' % x for x in translated))
  out.append('Definition deviceset_untranslated : list String.string := [%s]%%string.' % '; '.join('"%s"' % x for x in untranslated))
  return '\n'.join(out) + '\n'


if __name__ == '__main__':
  import sys
  print(gen_deviceset(sys.argv[1] if len(sys.argv) > 1 else '/repo'))
