"""TDevice (device_kit/tdevice.py): cost / costv / deriv / costv_t / deriv_t / r2t / _make_t_base  ->  coq/Gen/Thermal.v.

Built on the class-level translator (classes_tx.Tx): same typed whitelist of NumPy expressions plus what the thermal device needs
(np.where(v < 0, a, b), a matrix scaled row-wise by a column vector and summed over axis 0, attributes that __init__ derives from
the constructor arguments).  Every attribute the methods read is CHECKED against the source before it is used:
  self.sustainment ... self.t_external   read-only property returning self._x, and __init__ stores the constructor argument there
  self.t_min                              property returning self.t_optimal - self.t_range
  self.c                                  property returning self._c = IDevice._validate_param(c, len(self))
  self.t_base                             = self._make_t_base(self.t_external, self.sustainment, self.t_init) in __init__
  self.sustainment_matrix                 = sustainment_matrix(self.sustainment, len(self)) in __init__
  self._cost_fn                           = ABCCost(0, 2, self.c, self.t_min, self.t_optimal) in __init__
Graceful per method: a method outside the whitelist is an alias of the hand-written model and is listed in thermal_untranslated.
"""
import ast
import os
import classes_tx as cx
from classes_tx import Unsupported, U

ARGS = ['sustainment', 'efficiency', 't_init', 't_optimal', 't_range', 't_external', 'c']
DECL = '(n : nat) (sustainment efficiency t_init t_optimal t_range : A) (t_external : list A) (c : param A)'
NAMES = 'n ' + ' '.join(ARGS)
Q = '(tq sustainment efficiency t_init t_optimal t_range t_external c)'

TARGETS = [
  ('_make_t_base', ['t_external:V', 'sustainment:S', 't_init:S'], 'V',
   'vadd (base_soc t_init sustainment n) (soc (map (fun t => t * (n1 - sustainment)) t_external) sustainment n1)'),
  ('r2t', ['r:V'], 'V', 'vadd (TDevice__make_t_base %s t_external sustainment t_init) (soc r sustainment efficiency)' % NAMES),
  ('costv_t', ['t:V'], 'S', 'vsum (vk_abct_cost c (t_optimal - t_range) t_optimal t)'),
  ('deriv_t', ['t:V'], 'V', 'vk_abct_deriv c (t_optimal - t_range) t_optimal t'),
  ('costv', ['s:V', 'p:V'], 'V', 'map (fun x => TDevice_costv_t %s (TDevice_r2t %s s) / nofnat n + x) (vmul s p)' % (NAMES, NAMES)),
  ('cost', ['s:V', 'p:V'], 'S', 'vsum (TDevice_costv %s s p)' % NAMES),
  ('deriv', ['s:V', 'p:V'], 'V', 'tdev_deriv %s s p' % Q),
]


class TTx(cx.Tx):
  def __init__(self, tree):
    self.cls = 'TDevice'
    self.info = {'file': 'tdevice.py', 'scalars': [], 'args': ARGS}
    self.clsnode = next(n for n in tree.body if isinstance(n, ast.ClassDef) and n.name == 'TDevice')
    self.kernel_ok = None
    self.checked = {}
    self.reserved = set(ARGS) | {'n'}   # binders of the generated definitions: a Python local of the same name is renamed

  # ---- source checks behind every attribute
  def prop_body(self, name):
    for n in self.clsnode.body:
      if isinstance(n, ast.FunctionDef) and n.name == name and any(isinstance(d, ast.Name) and d.id == 'property' for d in n.decorator_list):
        body = [s for s in n.body if not (isinstance(s, ast.Expr) and isinstance(s.value, ast.Constant))]
        if len(body) >= 1 and isinstance(body[0], ast.Return):
          return ast.unparse(body[0].value)
    return None

  def init_assign(self, attr):
    init = self.method('__init__')
    vals = [ast.unparse(s.value) for s in init.body if isinstance(s, ast.Assign) and len(s.targets) == 1 and
            isinstance(s.targets[0], ast.Attribute) and isinstance(s.targets[0].value, ast.Name) and s.targets[0].value.id == 'self' and s.targets[0].attr == attr]
    return vals[0] if len(vals) == 1 else None

  def has_setter(self, name):
    return any(isinstance(n, ast.FunctionDef) and n.name == name and any(isinstance(d, ast.Attribute) and d.attr == 'setter' for d in n.decorator_list)
               for n in self.clsnode.body)

  def attr(self, e):
    a = e.attr
    if a in self.checked:
      return self.checked[a]
    r = None
    if a in ('sustainment', 'efficiency', 't_init', 't_optimal', 't_range', 't_external'):
      if self.prop_body(a) == 'self._' + a and self.init_assign('_' + a) == a and not self.has_setter(a):
        r = (a, 'V' if a == 't_external' else 'S')
    elif a == 't_min':
      if self.prop_body(a) == 'self.t_optimal - self.t_range':
        x, _ = self.attr(ast.Attribute(value=e.value, attr='t_optimal'))
        y, _ = self.attr(ast.Attribute(value=e.value, attr='t_range'))
        r = ('(%s - %s)' % (x, y), 'S')
    elif a == 't_base':
      if self.init_assign(a) == 'self._make_t_base(self.t_external, self.sustainment, self.t_init)':
        args = [self.attr(ast.Attribute(value=e.value, attr=x))[0] for x in ('t_external', 'sustainment', 't_init')]
        r = ('(TDevice__make_t_base %s %s)' % (NAMES, ' '.join(args)), 'V')
    elif a == 'sustainment_matrix':
      if self.init_assign(a) == 'sustainment_matrix(self.sustainment, len(self))':
        r = ('(sust_matrix %s n)' % self.attr(ast.Attribute(value=e.value, attr='sustainment'))[0], 'M')
    if r is None:
      U(e, 'attribute self.%s (not derived from the constructor arguments the way the translator expects)' % a)
    self.checked[a] = r
    return r

  def check_kernel(self):
    if self.prop_body('c') != 'self._c' or self.init_assign('_c') != 'IDevice._validate_param(c, len(self))':
      U(self.clsnode, 'self.c')
    if self.init_assign('_cost_fn') != 'ABCCost(0, 2, self.c, self.t_min, self.t_optimal)':
      U(self.clsnode, '_cost_fn is not ABCCost(0, 2, self.c, self.t_min, self.t_optimal)')
    for x in ('t_min', 't_optimal'):
      self.attr(ast.Attribute(value=ast.Name(id='self'), attr=x))

  # ---- expressions
  def expr(self, e, env):
    if isinstance(e, ast.Constant) and not isinstance(e.value, bool) and e.value in (0, 1) and isinstance(e.value, int):
      return ('n0' if e.value == 0 else 'n1'), 'S'
    if isinstance(e, ast.Attribute) and isinstance(e.value, ast.Name) and e.value.id == 'self':
      return self.attr(e)
    if isinstance(e, ast.BinOp) and isinstance(e.op, ast.Mult):
      a, ta = self.expr(e.left, env)
      b, tb = self.expr(e.right, env)
      if (ta, tb) == ('M', 'COL'):
        return '(map2 (fun row d => map (fun x => x * d) row) %s %s)' % (a, b), 'M'
      if ta in ('M', 'COL') or tb in ('M', 'COL'):
        U(e, 'operand types %s * %s' % (ta, tb))
    return super().expr(e, env)

  def call(self, e, env):
    f = e.func
    if isinstance(f, ast.Attribute) and isinstance(f.value, ast.Name) and f.value.id == 'np':
      # np.array(v) of a vector
      if f.attr == 'array' and len(e.args) == 1 and not e.keywords and isinstance(e.args[0], ast.Name):
        t, ty = self.expr(e.args[0], env)
        if ty == 'V':
          return t, 'V'
      # np.where(v < 0, a, b)
      if f.attr == 'where' and len(e.args) == 3 and not e.keywords:
        c = e.args[0]
        if isinstance(c, ast.Compare) and len(c.ops) == 1 and isinstance(c.ops[0], ast.Lt) and isinstance(c.comparators[0], ast.Constant) and c.comparators[0].value == 0:
          v, tv = self.expr(c.left, env)
          a, ta = self.expr(e.args[1], env)
          b, tb = self.expr(e.args[2], env)
          if (tv, ta, tb) == ('V', 'S', 'S'):
            return '(map (fun x => if x <? n0 then %s else %s) %s)' % (a, b, v), 'V'
        U(e, 'np.where')
    # X.reshape(len(self), 1): a column
    if isinstance(f, ast.Attribute) and f.attr == 'reshape' and len(e.args) == 2 and self.is_len_self(e.args[0]) and \
       isinstance(e.args[1], ast.Constant) and e.args[1].value == 1:
      t, ty = self.expr(f.value, env)
      if ty == 'V':
        return t, 'COL'
      U(e, 'reshape')
    # M.sum(axis=0)
    if isinstance(f, ast.Attribute) and f.attr == 'sum' and not e.args and len(e.keywords) == 1 and e.keywords[0].arg == 'axis' and \
       isinstance(e.keywords[0].value, ast.Constant) and e.keywords[0].value.value == 0:
      t, ty = self.expr(f.value, env)
      if ty == 'M':
        return '(colsum n %s)' % t, 'V'
      U(e, '.sum(axis=0) of %s' % ty)
    # the ABC kernel object
    def is_cf(x):
      return isinstance(x, ast.Attribute) and x.attr == '_cost_fn' and isinstance(x.value, ast.Name) and x.value.id == 'self'
    if len(e.args) == 1 and not e.keywords and (is_cf(f) or (isinstance(f, ast.Attribute) and f.attr == 'deriv' and is_cf(f.value))):
      if self.kernel_ok is None:
        self.check_kernel()
        self.kernel_ok = True
      t, ty = self.expr(e.args[0], env)
      if ty != 'V':
        U(e, 'kernel argument')
      ks = 'c (t_optimal - t_range) t_optimal'
      return ('(vsum (vk_abct_cost %s %s))' % (ks, t), 'S') if is_cf(f) else ('(vk_abct_deriv %s %s)' % (ks, t), 'V')
    # sibling methods
    if isinstance(f, ast.Attribute) and isinstance(f.value, ast.Name) and f.value.id == 'self' and not e.keywords:
      for (m, ps, rt, _) in TARGETS:
        if m == f.attr and len(ps) == len(e.args):
          args = [self.expr(a, env) for a in e.args]
          if [t for _, t in args] != [p.split(':')[1] for p in ps]:
            U(e, 'argument types of self.%s' % m)
          return '(TDevice_%s %s%s)' % (m, NAMES, ''.join(' ' + a for a, _ in args)), rt
      U(e, 'self.%s(...)' % f.attr)
    return super().call(e, env)


HEAD = ['(* GENERATED by translator/tdevice_tx.py from device_kit/tdevice.py -- do not edit. *)',
        'From Coq Require Import ZArith List Bool Arith.', 'From DK Require Import Num Vec.', 'From DK.Gen Require Import Kernels.',
        'From DK.Model Require Import Leaf.', 'Import ListNotations.', 'Section Thermal.', 'Context {A : Type} `{Num A}.',
        'Local Open Scope num_scope.',
        '(* np.vectorize of the ABC kernel over the slots with a = 0, b = 2, scalar end points (hand-written NumPy semantics) *)',
        'Definition vk_abct_cost (c : param A) (xl xh : A) (t : list A) : list A :=',
        "  map (fun '(i, x) => abc_cost x n0 n2 (pnth c i) xl xh) (idx t).",
        'Definition vk_abct_deriv (c : param A) (xl xh : A) (t : list A) : list A :=',
        "  map (fun '(i, x) => abc_deriv x n0 n2 (pnth c i) xl xh) (idx t).",
        'Definition tq (sustainment efficiency t_init t_optimal t_range : A) (t_external : list A) (c : param A) : tparams A :=',
        '  Build_tparams sustainment efficiency t_init t_optimal t_range t_external c.', '']


def gen_thermal(repo):
  fname = os.path.join(repo, 'device_kit', 'tdevice.py')
  out = list(HEAD)
  try:
    tx = TTx(ast.parse(open(fname).read(), fname))
  except (SyntaxError, StopIteration, OSError):
    tx = None
  translated, untranslated = [], []
  for (m, params, rtype, fallback) in TARGETS:
    binders = ' '.join('(%s : %s)' % (p.split(':')[0], cx.COQTYPE[p.split(':')[1]]) for p in params)
    head = 'Definition TDevice_%s %s %s : %s :=' % (m, DECL, binders, cx.COQTYPE[rtype])
    try:
      if tx is None:
        raise Unsupported('?:Module:cannot parse tdevice.py')
      body = tx.translate(m, params, rtype)
      translated.append('TDevice_' + m)
      out.append('(* tdevice.py: TDevice.%s *)' % m)
    except Unsupported as e:
      body = fallback
      untranslated.append('TDevice_' + m)
      out.append('(* tdevice.py: TDevice.%s NOT TRANSLATED (%s): alias of the hand-written model, tie falls back to the correspondence *)' % (
          m, str(e).replace('*)', '* )')))
    out.append(head + '\n  ' + body + '.\n')
  out.append('End Thermal.')
  out.append('From Coq Require Import String.')
  out.append('Definition thermal_translated : list String.string := [%s]%%string.' % '; '.join('"%s"' % x for x in translated))
  out.append('Definition thermal_untranslated : list String.string := [%s]%%string.' % '; '.join('"%s"' % x for x in untranslated))
  return '\n'.join(out) + '\n'


if __name__ == '__main__':
  import sys
  print(gen_thermal(sys.argv[1] if len(sys.argv) > 1 else '/repo'))
