"""Fail-closed extraction of constructor signatures and dump keys of every device / set class of /repo/device_kit
to Coq data (coq/Gen/Signatures.v).  Per class, from the Python `ast` only:

  cs_params / cs_required / cs_varkw   the effective `__init__` (nearest in the MRO): parameter names, those without
                                       a default, whether it takes **kwargs
  cs_forced     keywords the `super().__init__(...)` chain always passes into the `**meta` of Device.__init__
  cs_forwards   the class's own **kwargs reach Device.__init__'s **meta
  cs_keys_base / cs_keys_meta          how Device.__init__ builds `_keys`: a literal list, `+= list(meta.keys())`
  cs_dump_keys / cs_dump_added / cs_dump_removed   the effective `to_dict` chain: dumps `_keys`, plus literal keys
                                       (dict display / `.update({...})`), minus `del data[...]`

Whitelist for `__init__`: the `super().__init__(<own parameter names>, kw=<expr>, **<own kwargs>)` call must be a
top-level statement; Device.__init__ must contain exactly `self._keys = [<str>...]` and `self._keys += list(<kwarg>.keys())`.
Whitelist for `to_dict`: (a) `data = {k: getattr(self, k) for k in self._keys}` / `return data`; (b) `return {<str>: ..., ...}`;
(c) `d = super().to_dict()` followed by `d.update({<str>: ...})`, `del d[<str>]`, `d[<str>] = <expr>` or
`if <str> in d: d[<str>] = <expr>` (same key), then `return d`.
Anything else raises Unsupported('translator:<file>:<line>:<node>:<why>').
"""
import ast
import os
import sys

_main = sys.modules.get('__main__')
if getattr(_main, 'Unsupported', None) is not None and str(getattr(_main, '__file__', '')).endswith('py2coq.py'):
  _p = _main
else:
  import py2coq as _p
Unsupported, fail, find_class, find_method = _p.Unsupported, _p.fail, _p.find_class, _p.find_method

CLASSES = ['Device', 'CDevice', 'CDevice2', 'IDevice', 'IDevice2', 'GDevice', 'PVDevice', 'SDevice', 'TDevice', 'ADevice',
           'WindowDevice', 'DeviceSet', 'SubBalancedDeviceSet', 'MFDeviceSet', 'TwoRatioMFDeviceSet']
ROOT = 'BaseDevice'


def class_files(repo):
  """class name -> file, from the `from .mod import Name` lines of device_kit/__init__.py"""
  fname = os.path.join(repo, 'device_kit', '__init__.py')
  tree = ast.parse(open(fname).read(), fname)
  out = {}
  for n in tree.body:
    if isinstance(n, ast.ImportFrom) and n.level == 1 and n.module:
      for a in n.names:
        out[a.asname or a.name] = os.path.join(repo, 'device_kit', n.module.replace('.', os.sep) + '.py')
  return out


class Sigs:
  def __init__(self, repo):
    self.repo = repo
    self.files = class_files(repo)
    self.trees = {}

  def cls(self, name):
    if name not in self.files:
      raise Unsupported('translator:__init__.py:?:ImportFrom:class %s is not exported' % name)
    f = self.files[name]
    if f not in self.trees:
      self.trees[f] = ast.parse(open(f).read(), f)
    c = find_class(self.trees[f], name)
    if c is None:
      raise Unsupported('translator:%s:?:ClassDef:class %s not found' % (os.path.basename(f), name))
    return f, c

  def mro(self, name):
    out = []
    while name != ROOT:
      f, c = self.cls(name)
      out.append(name)
      if len(c.bases) != 1 or not isinstance(c.bases[0], ast.Name) or c.keywords:
        fail(f, c, 'exactly one plain base class is supported')
      name = c.bases[0].id
    return out

  def effective(self, name, member):
    for k in self.mro(name):
      f, c = self.cls(k)
      m = find_method(c, member)
      if m is not None:
        return k, f, m
    raise Unsupported('translator:?:?:FunctionDef:%s has no %s' % (name, member))

  def const_strs(self, f, v):
    """A list of string constants written as a list / tuple display, or as [list(]NAME[)] for a module-level constant of that form."""
    if isinstance(v, ast.Call) and isinstance(v.func, ast.Name) and v.func.id in ('list', 'tuple') and len(v.args) == 1 and not v.keywords:
      v = v.args[0]
    if isinstance(v, ast.Name):
      defs = [s for s in self.trees[f].body if isinstance(s, ast.Assign) and len(s.targets) == 1 and isinstance(s.targets[0], ast.Name) and s.targets[0].id == v.id]
      if len(defs) != 1:
        return None
      v = defs[0].value
    if isinstance(v, (ast.List, ast.Tuple)) and all(isinstance(e, ast.Constant) and isinstance(e.value, str) for e in v.elts):
      return [e.value for e in v.elts]
    return None

  # -------------------------------------------------------------- __init__
  def init_info(self, owner):
    """-> dict(params, required, varkw(name or None), forced, forwards, keys_base, keys_meta) for the __init__ defined in `owner`"""
    f, c = self.cls(owner)
    m = find_method(c, '__init__')
    a = m.args
    if a.vararg or a.kwonlyargs or a.posonlyargs or not a.args or a.args[0].arg != 'self':
      fail(f, m, 'argument list')
    params = [x.arg for x in a.args[1:]]
    required = params[:len(params) - len(a.defaults)] if a.defaults else list(params)
    if len(a.defaults) > len(params):
      fail(f, m, 'default for self')
    varkw = a.kwarg.arg if a.kwarg else None
    info = {'params': params, 'required': required, 'varkw': varkw, 'forced': [], 'forwards': False, 'keys_base': [], 'keys_meta': False}
    # _keys construction (only Device has one)
    keys_assign = [s for s in ast.walk(m) if isinstance(s, (ast.Assign, ast.AugAssign)) and self.is_self_keys(s.targets[0] if isinstance(s, ast.Assign) else s.target)]
    if keys_assign:
      if len(keys_assign) != 2 or not all(s in m.body or any(s in b.body for b in m.body if isinstance(b, ast.For)) for s in keys_assign):
        fail(f, m, '_keys must be built by exactly one literal assignment and one `+= list(meta.keys())`')
      first, second = sorted(keys_assign, key=lambda s: s.lineno)
      base = self.const_strs(f, first.value) if isinstance(first, ast.Assign) else None
      if base is None:
        fail(f, first, '_keys literal')
      info['keys_base'] = base
      v = second.value if isinstance(second, ast.AugAssign) and isinstance(second.op, ast.Add) else None
      ok = isinstance(v, ast.Call) and isinstance(v.func, ast.Name) and v.func.id == 'list' and len(v.args) == 1 and isinstance(v.args[0], ast.Call) \
          and isinstance(v.args[0].func, ast.Attribute) and v.args[0].func.attr == 'keys' and isinstance(v.args[0].func.value, ast.Name) \
          and v.args[0].func.value.id == varkw and first in m.body and second in m.body
      if not ok:
        fail(f, second, '_keys extension must be `self._keys += list(<kwargs>.keys())`')
      # every meta key must also be set on the object: for k, v in meta.items(): setattr(self, k, v)
      loops = [s for s in m.body if isinstance(s, ast.For) and isinstance(s.iter, ast.Call) and isinstance(s.iter.func, ast.Attribute)
               and s.iter.func.attr == 'items' and isinstance(s.iter.func.value, ast.Name) and s.iter.func.value.id == varkw
               and len(s.body) == 1 and isinstance(s.body[0], ast.Expr) and isinstance(s.body[0].value, ast.Call)
               and isinstance(s.body[0].value.func, ast.Name) and s.body[0].value.func.id == 'setattr']
      if len(loops) != 1:
        fail(f, m, 'meta keys must be set with `for k, v in meta.items(): setattr(self, k, v)`')
      info['keys_meta'] = True
      info['forwards'] = True
    # super().__init__(...) call
    calls = [s for s in m.body if isinstance(s, ast.Expr) and self.is_super_call(s.value, '__init__')]
    nested = [n for n in ast.walk(m) if isinstance(n, ast.Call) and self.is_super_call(n, '__init__')]
    if len(nested) != len(calls) or len(calls) > 1:
      fail(f, m, 'super().__init__ must be called once, as a top-level statement')
    info['super_call'] = calls[0].value if calls else None
    return info

  @staticmethod
  def is_self_keys(t):
    return isinstance(t, ast.Attribute) and t.attr == '_keys' and isinstance(t.value, ast.Name) and t.value.id == 'self'

  @staticmethod
  def is_super_call(c, member):
    return isinstance(c, ast.Call) and isinstance(c.func, ast.Attribute) and c.func.attr == member and isinstance(c.func.value, ast.Call) \
        and isinstance(c.func.value.func, ast.Name) and c.func.value.func.id == 'super' and not c.func.value.args

  def ctor(self, name):
    """effective constructor of class `name`, with the flow of keywords into Device.__init__'s **meta resolved"""
    owner, f, m = self.effective(name, '__init__')
    info = self.init_info(owner)
    call = info.pop('super_call')
    if call is not None:
      chain = self.mro(owner)
      if len(chain) < 2:
        fail(f, call, 'super().__init__ in a root class')
      parent = self.ctor(chain[1])
      # positional arguments must be own parameter names, mapped onto the parent's parameters in order
      bound = []
      for i, a in enumerate(call.args):
        if not isinstance(a, ast.Name) or a.id not in info['params']:
          fail(f, call, 'positional argument %d of super().__init__ is not one of the parameters' % i)
        if i >= len(parent['params']):
          fail(f, call, 'too many positional arguments to super().__init__')
        bound.append(parent['params'][i])
      forced = list(parent['forced'])
      forwards = False
      for kw in call.keywords:
        if kw.arg is None:
          if not (isinstance(kw.value, ast.Name) and kw.value.id == info['varkw']):
            fail(f, call, '** argument of super().__init__ is not the own **kwargs')
          if not parent['varkw']:
            fail(f, call, '**kwargs passed to a constructor that takes none')
          forwards = parent['forwards']
        elif kw.arg in parent['params']:
          bound.append(kw.arg)
        else:
          if not parent['varkw']:
            fail(f, call, 'keyword %s is not accepted by the base constructor' % kw.arg)
          if parent['forwards']:
            forced.append(kw.arg)
      missing = [p for p in parent['required'] if p not in bound]
      if missing:
        fail(f, call, 'super().__init__ does not supply %s' % missing)
      info['forced'] = forced
      info['forwards'] = forwards
      info['keys_base'] = parent['keys_base']
      info['keys_meta'] = parent['keys_meta']
    return info

  # -------------------------------------------------------------- to_dict
  def str_keys(self, f, d):
    if not isinstance(d, ast.Dict) or not all(isinstance(k, ast.Constant) and isinstance(k.value, str) for k in d.keys):
      fail(f, d, 'dictionary display with constant string keys expected')
    return [k.value for k in d.keys]

  @staticmethod
  def key_assign(s, var):
    """d['k'] = <expr>  ->  'k'"""
    if isinstance(s, ast.Assign) and len(s.targets) == 1 and isinstance(s.targets[0], ast.Subscript) and isinstance(s.targets[0].value, ast.Name) \
       and s.targets[0].value.id == var and isinstance(s.targets[0].slice, ast.Constant) and isinstance(s.targets[0].slice.value, str):
      return s.targets[0].slice.value
    return None

  def dump(self, name):
    """-> (dump_keys: bool, added: [str], removed: [str]) of the effective to_dict of `name`"""
    owner, f, m = self.effective(name, 'to_dict')
    body = [s for s in m.body if not (isinstance(s, ast.Expr) and isinstance(s.value, ast.Constant) and isinstance(s.value.value, str))]
    if len(m.args.args) != 1 or m.args.vararg or m.args.kwarg or m.args.kwonlyargs:
      fail(f, m, 'to_dict takes only self')
    if not body or not isinstance(body[-1], ast.Return) or body[-1].value is None:
      fail(f, m, 'to_dict must end in a return')
    ret = body[-1].value
    if len(body) == 1 and isinstance(ret, ast.Dict):
      return False, self.str_keys(f, ret), []
    if not isinstance(ret, ast.Name):
      fail(f, body[-1], 'return value')
    var = ret.id
    first = body[0]
    if not (isinstance(first, ast.Assign) and len(first.targets) == 1 and isinstance(first.targets[0], ast.Name) and first.targets[0].id == var):
      fail(f, first, 'first statement must bind the returned dictionary')
    v = first.value
    if isinstance(v, ast.DictComp):
      g = v.generators
      ok = len(g) == 1 and not g[0].ifs and isinstance(g[0].target, ast.Name) and self.is_self_keys(g[0].iter) \
          and isinstance(v.key, ast.Name) and v.key.id == g[0].target.id and isinstance(v.value, ast.Call) \
          and isinstance(v.value.func, ast.Name) and v.value.func.id == 'getattr' and len(v.value.args) == 2 \
          and isinstance(v.value.args[0], ast.Name) and v.value.args[0].id == 'self' \
          and isinstance(v.value.args[1], ast.Name) and v.value.args[1].id == g[0].target.id
      if not ok:
        fail(f, v, 'dict comprehension must be {k: getattr(self, k) for k in self._keys}')
      keys, added, removed = True, [], []
    elif self.is_super_call(v, 'to_dict') and not v.args and not v.keywords:
      chain = self.mro(owner)
      keys, added, removed = self.dump(chain[1])
      added, removed = list(added), list(removed)
    else:
      fail(f, first, 'dictionary source')
    for s in body[1:-1]:
      if isinstance(s, ast.Expr) and isinstance(s.value, ast.Call) and isinstance(s.value.func, ast.Attribute) and s.value.func.attr == 'update' \
         and isinstance(s.value.func.value, ast.Name) and s.value.func.value.id == var and len(s.value.args) == 1 and not s.value.keywords:
        for k in self.str_keys(f, s.value.args[0]):
          if k in removed:
            removed.remove(k)
          if k not in added:
            added.append(k)
      elif isinstance(s, ast.Delete) and len(s.targets) == 1 and isinstance(s.targets[0], ast.Subscript) and isinstance(s.targets[0].value, ast.Name) \
          and s.targets[0].value.id == var and isinstance(s.targets[0].slice, ast.Constant) and isinstance(s.targets[0].slice.value, str):
        k = s.targets[0].slice.value
        if k in added:
          added.remove(k)
        removed.append(k)
      elif self.key_assign(s, var) is not None:
        k = self.key_assign(s, var)                 # d['k'] = <expr>: the key is dumped (its value is the implementation's business)
        if k in removed:
          removed.remove(k)
        if k not in added:
          added.append(k)
      elif isinstance(s, ast.If) and not s.orelse and len(s.body) == 1 and self.key_assign(s.body[0], var) is not None \
          and isinstance(s.test, ast.Compare) and len(s.test.ops) == 1 and isinstance(s.test.ops[0], ast.In) \
          and isinstance(s.test.left, ast.Constant) and s.test.left.value == self.key_assign(s.body[0], var) \
          and isinstance(s.test.comparators[0], ast.Name) and s.test.comparators[0].id == var:
        pass                                        # if 'k' in d: d['k'] = <expr>: replaces a value, the key set is unchanged
      else:
        fail(f, s, 'statement in to_dict')
    return keys, added, removed


def strs(l):
  return '[' + '; '.join('"%s"' % x for x in l) + ']'


def gen_signatures(repo):
  S = Sigs(repo)
  out = ['(* GENERATED by translator/signatures_tx.py from device_kit/*.py -- do not edit. *)',
         'From Coq Require Import String List Bool.',
         'Import ListNotations.',
         'Local Open Scope string_scope.',
         'Record classsig := {',
         '  cs_name : string; cs_mro : list string;',
         '  cs_params : list string; cs_required : list string; cs_varkw : bool;',
         '  cs_forced : list string; cs_forwards : bool;',
         '  cs_keys_base : list string; cs_keys_meta : bool;',
         '  cs_dump_keys : bool; cs_dump_added : list string; cs_dump_removed : list string }.',
         '']
  names = []
  for name in CLASSES:
    c = S.ctor(name)
    keys, added, removed = S.dump(name)
    if keys and not c['keys_base'] and not c['keys_meta']:
      raise Unsupported('translator:?:?:ClassDef:%s dumps _keys but no constructor in its MRO builds _keys' % name)
    b = lambda x: 'true' if x else 'false'
    out.append('Definition sig_%s : classsig := {|' % name)
    out.append('  cs_name := "%s"; cs_mro := %s;' % (name, strs(S.mro(name))))
    out.append('  cs_params := %s; cs_required := %s; cs_varkw := %s;' % (strs(c['params']), strs(c['required']), b(c['varkw'])))
    out.append('  cs_forced := %s; cs_forwards := %s;' % (strs(c['forced']), b(c['forwards'] and c['varkw'])))
    out.append('  cs_keys_base := %s; cs_keys_meta := %s;' % (strs(c['keys_base']), b(c['keys_meta'])))
    out.append('  cs_dump_keys := %s; cs_dump_added := %s; cs_dump_removed := %s |}.' % (b(keys), strs(added), strs(removed)))
    names.append('sig_' + name)
  out.append('')
  out.append('Definition signatures : list classsig := [%s].' % '; '.join(names))
  return '\n'.join(out) + '\n'
