"""Class-level translator: cost / deriv / hess (and their helpers) of the simple atomic devices, from the NumPy source to Gallina.

  gen_classes(repo) -> text of coq/Gen/Classes.v

A typed mini-language of NumPy expressions (S scalar, V vector of len(self), M matrix, N nat) is whitelisted; each target method
becomes one polymorphic definition `<Class>_<method>`. Unlike the kernel translator this one degrades gracefully: a method whose body
leaves the whitelist is emitted as an alias of the hand-written model function (`Definition X := <model term>`) and listed in
`classes_untranslated`, so a harmless refactoring falls back to the correspondence (tie H) instead of raising an alarm, while a
semantic edit inside the whitelist changes the generated text and breaks the `Gen = Model` proofs of Proofs/GenClasses.v.
"""
import ast
import os


class Unsupported(Exception):
  pass


def U(node, why):
  raise Unsupported('%s:%s:%s' % (getattr(node, 'lineno', '?'), type(node).__name__, why))


# per class: scalar attributes (self.x), kernel object built in __init__, model fallbacks
CLASSES = {
  'Device': {'file': 'device.py', 'scalars': [], 'args': []},
  'CDevice': {'file': 'cdevice.py', 'scalars': ['a', 'b'], 'args': ['a', 'b']},
  'PVDevice': {'file': 'pvdevice.py', 'scalars': [], 'args': []},
  'IDevice': {'file': 'idevice.py', 'scalars': [], 'args': ['a', 'b', 'c', 'bnd'], 'kernel': 'abc'},
  'IDevice2': {'file': 'idevice2.py', 'scalars': [], 'args': ['p_l', 'p_h', 'bnd'], 'kernel': 'hl'},
  'GDevice': {'file': 'gdevice.py', 'scalars': [], 'args': ['g'], 'kernel': 'gpoly'},
  'SDevice': {'file': 'sdevice.py', 'scalars': ['c1', 'c2', 'c3', 'capacity', 'damage_depth', 'start', 'efficiency', 'sustainment'],
              'args': ['c1', 'c2', 'c3', 'capacity', 'damage_depth', 'start', 'efficiency', 'sustainment']},
}

# (class, method, parameter types, result type, model fallback term using the same binder names)
TARGETS = [
  ('Device', 'cost', ['s:V', 'p:V'], 'S', 'dev_cost s p'),
  ('Device', 'deriv', ['s:V', 'p:V'], 'V', 'dev_deriv n p'),
  ('Device', 'hess', ['s:V'], 'M', 'dev_hess n'),
  ('CDevice', 'cost', ['s:V', 'p:V'], 'S', 'cdev_cost a b s p'),
  ('CDevice', 'deriv', ['s:V', 'p:V'], 'V', 'cdev_deriv n a p'),
  ('CDevice', 'hess', ['s:V'], 'M', 'dev_hess n'),
  ('PVDevice', 'costv', ['s:V', 'p:V'], 'V', 'vmul s p'),
  ('IDevice', 'costv', ['s:V', 'p:V'], 'V', 'map (fun x => idev_pref a b c bnd s / nofnat n + x) (vmul s p)'),
  ('IDevice', 'cost', ['s:V', 'p:V'], 'S', 'vsum (IDevice_costv n a b c bnd s p)'),
  ('IDevice', 'deriv', ['s:V', 'p:V'], 'V', 'idev_deriv a b c bnd s p'),
  ('IDevice', 'hess', ['s:V'], 'M', 'idev_hess a b c bnd s'),
  ('IDevice2', 'costv', ['s:V', 'p:V'], 'V', 'map (fun x => idev2_pref p_l p_h bnd s / nofnat n + x) (vmul s p)'),
  ('IDevice2', 'cost', ['s:V', 'p:V'], 'S', 'vsum (IDevice2_costv n p_l p_h bnd s p)'),
  ('IDevice2', 'deriv', ['s:V', 'p:V'], 'V', 'idev2_deriv p_l p_h bnd s p'),
  ('IDevice2', 'hess', ['s:V'], 'M', 'idev2_hess p_l p_h bnd s'),
  ('GDevice', 'costv', ['s:V', 'p:V'], 'V', "map (fun '(i, x) => x * nth i p n0 + horner (gpoly g i) (- x)) (idx s)"),
  ('GDevice', 'cost', ['s:V', 'p:V'], 'S', 'gdev_cost g s p'),
  ('GDevice', 'deriv', ['s:V', 'p:V'], 'V', 'gdev_deriv g s p'),
  ('GDevice', 'hess', ['s:V'], 'M', 'gdev_hess g s'),
  ('SDevice', 'base', [], 'S', 'start * capacity'),
  ('SDevice', 'charge_at', ['r:V'], 'V', 'vadd (base_soc (start * capacity) sustainment n) (soc r sustainment efficiency)'),
  ('SDevice', 'flip_cost_at', ['r:V'], 'V',
   'map (fun x => c2 * (- n1) * x) (map (fun i => nth i r n0 * nth (S i) r n0) (seq 0 (List.length r - 1)) ++ [n0])'),
  ('SDevice', 'deep_damage_at', ['r:V'], 'V',
   'map (fun x => c3 * x) (map (fun x => npown x 2) (map (fun x => nmin x n0) (map (fun x => x - capacity * damage_depth) (SDevice_charge_at n c1 c2 c3 capacity damage_depth start efficiency sustainment r))))'),
  ('SDevice', 'charge_costs', ['r:V'], 'V',
   'vadd (vadd (map (fun x => c1 * x) (map (fun x => npown x 2) r)) (SDevice_flip_cost_at n c1 c2 c3 capacity damage_depth start efficiency sustainment r)) (SDevice_deep_damage_at n c1 c2 c3 capacity damage_depth start efficiency sustainment r)'),
  ('SDevice', 'costv', ['s:V', 'p:V'], 'V', 'vadd (SDevice_charge_costs n c1 c2 c3 capacity damage_depth start efficiency sustainment s) (vmul s p)'),
  ('SDevice', 'cost', ['s:V', 'p:V'], 'S', 'vsum (SDevice_costv n c1 c2 c3 capacity damage_depth start efficiency sustainment s p)'),
]

ARGTYPES = {'g': 'gcoeffs A', 'a': 'A', 'b': 'A', 'c1': 'A', 'c2': 'A', 'c3': 'A', 'capacity': 'A', 'damage_depth': 'A', 'start': 'A', 'efficiency': 'A',
            'sustainment': 'A', 'bnd': 'list (A * A)', 'p_l': 'param A', 'p_h': 'param A', 'c': 'param A'}


def argdecl(cls):
  info = CLASSES[cls]
  out = ['(n : nat)']
  for a in info['args']:
    t = ARGTYPES[a]
    if cls == 'IDevice' and a in ('a', 'b'):
      t = 'param A'
    out.append('(%s : %s)' % (a, t))
  return ' '.join(out)


def argnames(cls):
  return ' '.join(['n'] + CLASSES[cls]['args'])


class Tx:
  def __init__(self, cls, tree):
    self.cls, self.info = cls, CLASSES[cls]
    self.clsnode = next(n for n in tree.body if isinstance(n, ast.ClassDef) and n.name == cls)
    self.kernel_ok = None
    self.reserved = set(self.info['args']) | {'n'}   # binders of the generated definitions: a Python local of the same name is renamed

  def method(self, name):
    for n in self.clsnode.body:
      if isinstance(n, ast.FunctionDef) and n.name == name and not any(isinstance(d, ast.Attribute) and d.attr == 'setter' for d in n.decorator_list):
        return n
    raise Unsupported('?:FunctionDef:method %s.%s not found' % (self.cls, name))

  def check_gpoly(self):
    """GDevice: the cost_coeffs setter must build the three polynomial objects the way gk_val / gk_d1 / gk_d2 assume:
    1-D coefficients: np.poly1d(cost), .deriv(), .deriv(2); 2-D: Poly2D(cost).vector / .deriv / np.diag(.hess) per call."""
    st = None
    for n in self.clsnode.body:
      if isinstance(n, ast.FunctionDef) and n.name == 'cost_coeffs' and any(isinstance(d, ast.Attribute) and d.attr == 'setter' for d in n.decorator_list):
        st = n
    if st is None:
      U(self.clsnode, 'cost_coeffs setter not found')
    arg = st.args.args[1].arg
    want1 = {'_cost_fn': 'np.poly1d(%s)' % arg, '_cost_d1_fn': 'self._cost_fn.deriv()', '_cost_d2_fn': 'self._cost_fn.deriv(2)'}
    want2 = {'_cost_fn': 'lambda x: Poly2D(%s).vector(x)' % arg, '_cost_d1_fn': 'lambda x: Poly2D(%s).deriv(x)' % arg,
             '_cost_d2_fn': 'lambda x: np.diag(Poly2D(%s).hess(x))' % arg}
    ifs = [x for x in st.body if isinstance(x, ast.If)]
    if len(ifs) != 1:
      U(st, 'cost_coeffs setter shape')
    top = ifs[0]

    def ndim_test(t, k):
      return ast.unparse(t) in ('np.array(%s).ndim == %d' % (arg, k), 'ndim == %d' % k)

    def assigns(body):
      out = {}
      for x in body:
        if isinstance(x, ast.Assign) and len(x.targets) == 1 and isinstance(x.targets[0], ast.Attribute) and isinstance(x.targets[0].value, ast.Name) and x.targets[0].value.id == 'self':
          out[x.targets[0].attr] = ast.unparse(x.value)
        else:
          U(x, 'statement in the cost_coeffs setter')
      return out
    if not ndim_test(top.test, 1) or assigns(top.body) != want1:
      U(top, '1-D branch of the cost_coeffs setter')
    if len(top.orelse) != 1 or not isinstance(top.orelse[0], ast.If) or not ndim_test(top.orelse[0].test, 2) or assigns(top.orelse[0].body) != want2:
      U(top, '2-D branch of the cost_coeffs setter')

  def check_kernel(self):
    """The kernel object must be built in __init__ exactly as the helpers assume."""
    want = {'abc': ('ABCCost', ['a', 'b', 'c', 'lbounds', 'hbounds']), 'hl': ('HLQuadraticCost', ['p_l', 'p_h', 'lbounds', 'hbounds'])}[self.info['kernel']]
    def ok_call(v):
      return isinstance(v, ast.Call) and isinstance(v.func, ast.Name) and v.func.id == want[0] and not v.keywords and \
        [a.attr if isinstance(a, ast.Attribute) and isinstance(a.value, ast.Name) and a.value.id == 'self' else None for a in v.args] == want[1]
    # (a) a read-only property `_cost_fn` returning the kernel object built from the live settings
    for n in self.clsnode.body:
      if isinstance(n, ast.FunctionDef) and n.name == '_cost_fn' and any(isinstance(d, ast.Name) and d.id == 'property' for d in n.decorator_list):
        body = [st for st in n.body if not (isinstance(st, ast.Expr) and isinstance(st.value, ast.Constant) and isinstance(st.value.value, str))]
        if len(body) == 1 and isinstance(body[0], ast.Return) and ok_call(body[0].value):
          return
        U(n, '_cost_fn property is not `return %s(%s)`' % (want[0], ', '.join('self.' + x for x in want[1])))
    # (b) assigned once in __init__
    init = self.method('__init__')
    for st in init.body:
      if isinstance(st, ast.Assign) and len(st.targets) == 1 and isinstance(st.targets[0], ast.Attribute) and st.targets[0].attr == '_cost_fn':
        if ok_call(st.value):
          return
        U(st, '_cost_fn is not %s(%s)' % (want[0], ', '.join('self.' + x for x in want[1])))
    U(init, '_cost_fn neither a property nor assigned in __init__')

  # ---- expressions -> (term, type)
  def expr(self, e, env):
    if isinstance(e, ast.Constant):
      if isinstance(e.value, bool) or not isinstance(e.value, (int, float)):
        U(e, 'constant')
      if isinstance(e.value, int):
        return ('(nofZ (%d))' % e.value if e.value < 0 else '(nofZ %d)' % e.value), 'S'
      U(e, 'float constant')
    if isinstance(e, ast.Name):
      if e.id in env:
        return env[e.id]
      U(e, 'free name %s' % e.id)
    if isinstance(e, ast.Attribute) and isinstance(e.value, ast.Name) and e.value.id == 'self':
      if e.attr in self.info['scalars']:
        return e.attr, 'S'
      U(e, 'attribute self.%s' % e.attr)
    if isinstance(e, ast.UnaryOp) and isinstance(e.op, ast.USub):
      t, ty = self.expr(e.operand, env)
      return ('(- %s)' % t, 'S') if ty == 'S' else ('(map (fun x => - x) %s)' % t, ty)
    if isinstance(e, ast.BinOp):
      if isinstance(e.op, ast.Pow):
        a, ta = self.expr(e.left, env)
        if isinstance(e.right, ast.Constant) and isinstance(e.right.value, int) and 0 <= e.right.value <= 4:
          k = e.right.value
          return ('(npown %s %d)' % (a, k), 'S') if ta == 'S' else ('(map (fun x => npown x %d) %s)' % (k, a), ta)
        U(e, 'power with non-literal exponent')
      ops = {ast.Add: '+', ast.Sub: '-', ast.Mult: '*', ast.Div: '/'}
      if type(e.op) not in ops:
        U(e, 'operator')
      o = ops[type(e.op)]
      a, ta = self.expr(e.left, env)
      b, tb = self.expr(e.right, env)
      if tb == 'N' and ta == 'S' and o == '/':
        return '(%s / nofnat %s)' % (a, b), 'S'
      if ta == 'S' and tb == 'S':
        return '(%s %s %s)' % (a, o, b), 'S'
      if ta == 'V' and tb == 'V':
        return '(map2 (fun x y => x %s y) %s %s)' % (o, a, b), 'V'
      if ta == 'S' and tb == 'V':
        return '(map (fun x => %s %s x) %s)' % (a, o, b), 'V'
      if ta == 'V' and tb == 'S':
        return '(map (fun x => x %s %s) %s)' % (o, b, a), 'V'
      U(e, 'operand types %s %s %s' % (ta, o, tb))
    if isinstance(e, ast.Call):
      return self.call(e, env)
    if isinstance(e, ast.Tuple) or isinstance(e, ast.List):
      U(e, 'sequence literal')
    U(e, 'expression')

  def is_len_self(self, e):
    return isinstance(e, ast.Call) and isinstance(e.func, ast.Name) and e.func.id == 'len' and len(e.args) == 1 and \
        isinstance(e.args[0], ast.Name) and e.args[0].id == 'self'

  def call(self, e, env):
    f = e.func
    # len(self)
    if self.is_len_self(e):
      return 'n', 'N'
    # X.sum()
    if isinstance(f, ast.Attribute) and f.attr == 'sum' and not e.args and not e.keywords:
      t, ty = self.expr(f.value, env)
      if ty == 'V':
        return '(vsum %s)' % t, 'S'
      U(e, '.sum() of %s' % ty)
    # X.reshape((len(self),)) / X.reshape(len(self))
    if isinstance(f, ast.Attribute) and f.attr == 'reshape' and len(e.args) == 1:
      a = e.args[0]
      if self.is_len_self(a) or (isinstance(a, ast.Tuple) and len(a.elts) == 1 and self.is_len_self(a.elts[0])):
        t, ty = self.expr(f.value, env)
        if ty == 'V':
          return t, 'V'
      U(e, 'reshape')
    if isinstance(f, ast.Attribute) and isinstance(f.value, ast.Name) and f.value.id == 'np':
      if f.attr == 'ones' and len(e.args) == 1 and self.is_len_self(e.args[0]):
        return '(ones n)', 'V'
      if f.attr == 'zeros' and len(e.args) == 1 and isinstance(e.args[0], ast.Tuple) and len(e.args[0].elts) == 2 and all(self.is_len_self(x) for x in e.args[0].elts):
        return '(mconst n n n0)', 'M'
      if f.attr == 'minimum' and len(e.args) == 2 and isinstance(e.args[1], ast.Constant) and e.args[1].value == 0:
        t, ty = self.expr(e.args[0], env)
        if ty == 'V':
          return '(map (fun x => nmin x n0) %s)' % t, 'V'
      if f.attr == 'array' and len(e.args) == 1:
        return self.listexpr(e.args[0], env)
      if f.attr != 'diag':
        U(e, 'np.%s' % f.attr)
    # utils
    if isinstance(f, ast.Name) and f.id == 'base_soc' and len(e.args) == 1 and [k.arg for k in e.keywords] == ['s', 'l'] and self.is_len_self(e.keywords[1].value):
      b, tb = self.expr(e.args[0], env)
      s, ts = self.expr(e.keywords[0].value, env)
      if tb == 'S' and ts == 'S':
        return '(base_soc %s %s n)' % (b, s), 'V'
    if isinstance(f, ast.Name) and f.id == 'soc' and len(e.args) == 1 and [k.arg for k in e.keywords] == ['s', 'e']:
      r, tr = self.expr(e.args[0], env)
      s, ts = self.expr(e.keywords[0].value, env)
      ef, te = self.expr(e.keywords[1].value, env)
      if (tr, ts, te) == ('V', 'S', 'S'):
        return '(soc %s %s %s)' % (r, s, ef), 'V'
    # np.diag(vector)
    if isinstance(f, ast.Attribute) and isinstance(f.value, ast.Name) and f.value.id == 'np' and f.attr == 'diag' and len(e.args) == 1 and not e.keywords:
      t, ty = self.expr(e.args[0], env)
      if ty == 'V':
        return '(diag %s)' % t, 'M'
      U(e, 'np.diag of %s' % ty)
    # GDevice: the three polynomial objects built by the cost_coeffs setter
    if self.info.get('kernel') == 'gpoly' and isinstance(f, ast.Attribute) and isinstance(f.value, ast.Name) and f.value.id == 'self' and \
       f.attr in ('_cost_fn', '_cost_d1_fn', '_cost_d2_fn') and len(e.args) == 1 and not e.keywords:
      if self.kernel_ok is None:
        self.check_gpoly()
        self.kernel_ok = True
      t, ty = self.expr(e.args[0], env)
      if ty != 'V':
        U(e, 'polynomial argument')
      return '(%s g %s)' % ({'_cost_fn': 'gk_val', '_cost_d1_fn': 'gk_d1', '_cost_d2_fn': 'gk_d2'}[f.attr], t), 'V'
    # kernel object: self._cost_fn(s), self._cost_fn.deriv(s), self._cost_fn.hess(s)
    kern = self.info.get('kernel') if self.info.get('kernel') in ('abc', 'hl') else None
    def is_cf(x):
      return isinstance(x, ast.Attribute) and x.attr == '_cost_fn' and isinstance(x.value, ast.Name) and x.value.id == 'self'
    if kern and len(e.args) == 1 and not e.keywords:
      which = None
      if is_cf(f):
        which = 'call'
      elif isinstance(f, ast.Attribute) and f.attr in ('deriv', 'hess') and is_cf(f.value):
        which = f.attr
      if which:
        if self.kernel_ok is None:
          self.check_kernel()
          self.kernel_ok = True
        s, ts = self.expr(e.args[0], env)
        if ts != 'V':
          U(e, 'kernel argument')
        pre = {'abc': 'vk_abc', 'hl': 'vk_hl'}[kern]
        ks = {'abc': 'a b c bnd', 'hl': 'p_l p_h bnd'}[kern]
        if which == 'call':
          return '(vsum (%s_cost %s %s))' % (pre, ks, s), 'S'
        if which == 'deriv':
          return '(%s_deriv %s %s)' % (pre, ks, s), 'V'
        return '(diag (%s_hess %s %s))' % (pre, ks, s), 'M'
    # self.method(args) on a translated sibling
    if isinstance(f, ast.Attribute) and isinstance(f.value, ast.Name) and f.value.id == 'self' and not e.keywords:
      for (c, m, ps, rt, _) in TARGETS:
        if c == self.cls and m == f.attr and len(ps) == len(e.args):
          args = [self.expr(a, env) for a in e.args]
          if [t for _, t in args] != [p.split(':')[1] for p in ps]:
            U(e, 'argument types of self.%s' % m)
          return '(%s_%s %s%s)' % (c, m, argnames(c), ''.join(' ' + a for a, _ in args)), rt
      U(e, 'self.%s(...)' % f.attr)
    U(e, 'call')

  def listexpr(self, e, env):
    """[r[i]*r[i+1] for i in range(0, len(r)-1)] + [0]"""
    if isinstance(e, ast.BinOp) and isinstance(e.op, ast.Add) and isinstance(e.right, ast.List) and len(e.right.elts) == 1 and \
       isinstance(e.right.elts[0], ast.Constant) and e.right.elts[0].value == 0 and isinstance(e.left, ast.ListComp):
      lc = e.left
      if len(lc.generators) == 1 and not lc.generators[0].ifs and isinstance(lc.generators[0].target, ast.Name):
        i = lc.generators[0].target.id
        it = lc.generators[0].iter
        # range(0, len(r)-1)
        if isinstance(it, ast.Call) and isinstance(it.func, ast.Name) and it.func.id == 'range' and len(it.args) == 2 and \
           isinstance(it.args[0], ast.Constant) and it.args[0].value == 0 and isinstance(it.args[1], ast.BinOp) and isinstance(it.args[1].op, ast.Sub) and \
           isinstance(it.args[1].right, ast.Constant) and it.args[1].right.value == 1 and isinstance(it.args[1].left, ast.Call) and \
           isinstance(it.args[1].left.func, ast.Name) and it.args[1].left.func.id == 'len' and isinstance(it.args[1].left.args[0], ast.Name):
          v = it.args[1].left.args[0].id
          if v in env and env[v][1] == 'V':
            body = self.idx_expr(lc.elt, env, i)
            return '(map (fun %s => %s) (seq 0 (List.length %s - 1)) ++ [n0])' % (i, body, env[v][0]), 'V'
    U(e, 'list expression')

  def idx_expr(self, e, env, i):
    """scalar expression over r[i], r[i+1]"""
    if isinstance(e, ast.BinOp) and type(e.op) in (ast.Mult, ast.Add, ast.Sub):
      o = {ast.Mult: '*', ast.Add: '+', ast.Sub: '-'}[type(e.op)]
      return '(%s %s %s)' % (self.idx_expr(e.left, env, i), o, self.idx_expr(e.right, env, i))
    if isinstance(e, ast.Subscript) and isinstance(e.value, ast.Name) and e.value.id in env and env[e.value.id][1] == 'V':
      v = env[e.value.id][0]
      sl = e.slice
      if isinstance(sl, ast.Name) and sl.id == i:
        return '(nth %s %s n0)' % (i, v)
      if isinstance(sl, ast.BinOp) and isinstance(sl.op, ast.Add) and isinstance(sl.left, ast.Name) and sl.left.id == i and \
         isinstance(sl.right, ast.Constant) and sl.right.value == 1:
        return '(nth (S %s) %s n0)' % (i, v)
    U(e, 'indexed expression')

  def stmts(self, body, env):
    if not body:
      U(ast.Pass(), 'falls off the end')
    s, rest = body[0], body[1:]
    if isinstance(s, ast.Expr) and isinstance(s.value, ast.Constant) and isinstance(s.value.value, str):
      return self.stmts(rest, env)
    if isinstance(s, ast.Return) and s.value is not None:
      return self.expr(s.value, env)
    if isinstance(s, ast.Assign) and len(s.targets) == 1 and isinstance(s.targets[0], ast.Name):
      t, ty = self.expr(s.value, env)
      name = s.targets[0].id
      env2 = dict(env)
      fresh = name if (name not in env and name not in getattr(self, 'reserved', ())) else name + "'"
      env2[name] = (fresh, ty)
      b, tb = self.stmts(rest, env2)
      return '(let %s := %s in %s)' % (fresh, t, b), tb
    U(s, 'statement')

  def translate(self, name, params, rtype):
    m = self.method(name)
    a = m.args
    if a.vararg or a.kwarg or a.kwonlyargs or a.posonlyargs:
      U(m, 'argument list')
    names = [x.arg for x in a.args][1:]
    want = [p.split(':')[0] for p in params]
    if names[:len(want)] != want:
      U(m, 'parameters %s, expected %s' % (names, want))
    env = {p.split(':')[0]: (p.split(':')[0], p.split(':')[1]) for p in params}
    t, ty = self.stmts(m.body, env)
    if ty != rtype:
      U(m, 'result type %s, expected %s' % (ty, rtype))
    return t


COQTYPE = {'S': 'A', 'V': 'list A', 'M': 'list (list A)'}


def gen_classes(repo):
  out = ['(* GENERATED by translator/classes_tx.py from device_kit/{device,cdevice,pvdevice,idevice,idevice2,gdevice,sdevice}.py -- do not edit. *)',
         'From Coq Require Import ZArith List Bool Arith.', 'From DK Require Import Num Vec.', 'From DK.Gen Require Import Kernels.',
         'From DK.Model Require Import Leaf.', 'Import ListNotations.', 'Section Classes.', 'Context {A : Type} `{Num A}.',
         'Local Open Scope num_scope.',
         '(* np.vectorize of the scalar kernels over the slots, parameters broadcast per slot (hand-written NumPy semantics) *)',
         'Definition vk_abc_cost (a b c : param A) (bnd : list (A * A)) (s : list A) : list A :=',
         "  map (fun '(i, x) => abc_cost x (pnth a i) (pnth b i) (pnth c i) (lo bnd i) (hi bnd i)) (idx s).",
         'Definition vk_abc_deriv (a b c : param A) (bnd : list (A * A)) (s : list A) : list A :=',
         "  map (fun '(i, x) => abc_deriv x (pnth a i) (pnth b i) (pnth c i) (lo bnd i) (hi bnd i)) (idx s).",
         'Definition vk_abc_hess (a b c : param A) (bnd : list (A * A)) (s : list A) : list A :=',
         "  map (fun '(i, x) => abc_hess x (pnth a i) (pnth b i) (pnth c i) (lo bnd i) (hi bnd i)) (idx s).",
         'Definition vk_hl_cost (p_l p_h : param A) (bnd : list (A * A)) (s : list A) : list A :=',
         "  map (fun '(i, x) => hl_cost x (pnth p_l i) (pnth p_h i) (lo bnd i) (hi bnd i)) (idx s).",
         'Definition vk_hl_deriv (p_l p_h : param A) (bnd : list (A * A)) (s : list A) : list A :=',
         "  map (fun '(i, x) => hl_deriv x (pnth p_l i) (pnth p_h i) (lo bnd i) (hi bnd i)) (idx s).",
         'Definition vk_hl_hess (p_l p_h : param A) (bnd : list (A * A)) (s : list A) : list A :=',
         "  map (fun '(i, x) => hl_hess x (pnth p_l i) (pnth p_h i) (lo bnd i) (hi bnd i)) (idx s).", '']
  out += ['(* np.poly1d(c)(x) broadcast over the slots / Poly2D(cs).vector(x): one polynomial per slot; .deriv() / .deriv(2) (hand-written NumPy semantics) *)',
          'Definition gk_val (g : gcoeffs A) (x : list A) : list A :=', "  map (fun '(i, v) => horner (gpoly g i) v) (idx x).",
          'Definition gk_d1 (g : gcoeffs A) (x : list A) : list A :=', "  map (fun '(i, v) => horner (pderiv (gpoly g i)) v) (idx x).",
          'Definition gk_d2 (g : gcoeffs A) (x : list A) : list A :=', "  map (fun '(i, v) => horner (pderiv (pderiv (gpoly g i))) v) (idx x).", '']
  trees = {}
  txs = {}
  untranslated = []
  translated = []
  for (cls, m, params, rtype, fallback) in TARGETS:
    info = CLASSES[cls]
    fname = os.path.join(repo, 'device_kit', info['file'])
    if cls not in txs:
      try:
        trees[cls] = ast.parse(open(fname).read(), fname)
        txs[cls] = Tx(cls, trees[cls])
      except (SyntaxError, StopIteration) as e:
        txs[cls] = None
    binders = ' '.join('(%s : %s)' % (p.split(':')[0], COQTYPE[p.split(':')[1]]) for p in params)
    head = 'Definition %s_%s %s %s : %s :=' % (cls, m, argdecl(cls), binders, COQTYPE[rtype])
    try:
      if txs[cls] is None:
        raise Unsupported('?:Module:cannot parse %s' % info['file'])
      body = txs[cls].translate(m, params, rtype)
      translated.append('%s_%s' % (cls, m))
      out.append('(* %s: %s.%s *)' % (info['file'], cls, m))
    except Unsupported as e:
      body = fallback
      untranslated.append('%s_%s' % (cls, m))
      out.append('(* %s: %s.%s NOT TRANSLATED (%s): alias of the hand-written model, tie falls back to the correspondence *)' % (info['file'], cls, m, str(e).replace('*)', '* )')))
    out.append(head + '\n  ' + body + '.\n')
  out.append('End Classes.')
  out.append('From Coq Require Import String.')
  out.append('Definition classes_translated : list String.string := [%s]%%string.' % '; '.join('"%s"' % x for x in translated))
  out.append('Definition classes_untranslated : list String.string := [%s]%%string.' % '; '.join('"%s"' % x for x in untranslated))
  text = '\n'.join(out) + '\n'
  return text
