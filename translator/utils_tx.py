"""device_kit/utils.py: base_soc, soc, sustainment_matrix, power_matrix  ->  coq/Gen/Utils.v.

A typed table of the NumPy array operations these four functions are written in (np.arange, **, *, np.ones, np.triu(., 1), np.tril,
row-wise cumsum, transpose, diagonal, np.sign, np.array of a comprehension over rows), each mapped to a hand-written list function of
Model/NpOps.v.  Proofs/GenUtils.v proves the compositions equal to the closed forms of Model/Leaf.v (sust_matrix, soc, base_soc) that
the recurrences of C09 are proved about.  Graceful per function.
"""
import ast
import os


class Unsupported(Exception):
  pass


def U(node, why):
  raise Unsupported('%s:%s:%s' % (getattr(node, 'lineno', '?'), type(node).__name__, why))


def un(e):
  return ast.unparse(e)


class Tx:
  def ex(self, e, env):
    """-> (term, type); types: S scalar, N nat, V vector, NV nat vector, M matrix, NM nat matrix, SIGN (sign-of vector)"""
    if isinstance(e, ast.Constant) and isinstance(e.value, int) and not isinstance(e.value, bool):
      return str(e.value), 'I'
    if isinstance(e, ast.Name):
      if e.id in env:
        return env[e.id]
      U(e, 'name %s' % e.id)
    if isinstance(e, ast.BinOp):
      a, ta = self.ex(e.left, env)
      b, tb = self.ex(e.right, env)
      op = type(e.op)
      if op is ast.Add and (ta, tb) == ('N', 'I'):
        return '(%s + %s)%%nat' % (a, b), 'N'
      if op is ast.Pow and (ta, tb) == ('S', 'NV'):
        return '(map (fun k => npown %s k) %s)' % (a, b), 'V'
      if op is ast.Pow and (ta, tb) == ('S', 'NM'):
        return '(map (map (fun k => npown %s k)) %s)' % (a, b), 'M'
      if op is ast.Pow and (ta, tb) == ('S', 'SIGN'):
        return '(map (effof %s) %s)' % (a, b), 'V'
      if op is ast.Mult and (ta, tb) == ('S', 'V'):
        return '(map (fun x => %s * x) %s)' % (a, b), 'V'
      if op is ast.Mult and (ta, tb) == ('V', 'V'):
        return '(vmul %s %s)' % (a, b), 'V'
      if op is ast.Mult and (ta, tb) == ('V', 'M'):
        return '(map (fun row => vmul %s row) %s)' % (a, b), 'M'          # a row vector broadcast over the rows
      U(e, 'operator on %s, %s' % (ta, tb))
    if isinstance(e, ast.Call):
      f = e.func
      kws = {k.arg: un(k.value) for k in e.keywords}
      s = un(f)
      if s == 'np.arange' and len(e.args) == 2 and not kws:
        a, ta = self.ex(e.args[0], env)
        b, tb = self.ex(e.args[1], env)
        # np.arange(1, l + 1)
        if ta == 'I' and tb == 'N' and isinstance(e.args[1], ast.BinOp) and un(e.args[1].right) == a:
          l, tl = self.ex(e.args[1].left, env)
          return '(seq %s %s)' % (a, l), 'NV'
        U(e, 'np.arange')
      if s == 'np.sign' and len(e.args) == 1:
        a, ta = self.ex(e.args[0], env)
        if ta == 'V':
          return a, 'SIGN'
      if s == 'np.array' and len(e.args) == 1 and not kws:
        a, ta = self.ex(e.args[0], env)
        if ta in ('V', 'M', 'NM', 'NV'):
          return a, ta
      if s == 'np.ones' and len(e.args) == 1 and isinstance(e.args[0], ast.Tuple) and len(e.args[0].elts) == 2 and un(e.args[0].elts[0]) == un(e.args[0].elts[1]):
        l, tl = self.ex(e.args[0].elts[0], env)
        if tl == 'N':
          return ('ones2', l), 'ONES2'
      if s == 'np.triu' and len(e.args) == 2 and un(e.args[1]) == '1':
        a, ta = self.ex(e.args[0], env)
        if ta == 'ONES2':
          return '(np_triu1_ones %s)' % a[1], 'NM'
      if s == 'np.tril' and len(e.args) == 1:
        a, ta = self.ex(e.args[0], env)
        if ta == 'ONES2':
          return '(np_tril (mconst %s %s n1))' % (a[1], a[1]), 'M'
        if ta == 'M':
          return '(np_tril %s)' % a, 'M'
      if s == 'sustainment_matrix' and len(e.args) == 2:
        a, ta = self.ex(e.args[0], env)
        b, tb = self.ex(e.args[1], env)
        if (ta, tb) == ('S', 'N'):
          return '(sustainment_matrix_gen %s %s)' % (a, b), 'M'
      if s == 'power_matrix' and len(e.args) == 1:
        a, ta = self.ex(e.args[0], env)
        if ta == 'N':
          return '(power_matrix_gen %s)' % a, 'NM'
      if s == 'len' and len(e.args) == 1:
        a, ta = self.ex(e.args[0], env)
        if ta == 'V':
          return '(length %s)' % a, 'N'
      if isinstance(f, ast.Attribute):
        v, tv = self.ex(f.value, env)
        if f.attr == 'cumsum' and not e.args:
          if tv == 'NV' and not kws:
            return '(np_cumsum %s)' % v, 'NV'
          if tv == 'M' and kws == {'axis': '1'}:
            return '(map cumsumA %s)' % v, 'M'
        if f.attr == 'transpose' and not e.args and tv == 'NM' and 'l' in env:
          return '(np_transpose_nat %s %s)' % (env['l'][0], v), 'NM'
        if f.attr == 'diagonal' and not e.args and tv == 'M':
          return '(np_diagonal %s)' % v, 'V'
      U(e, 'call %s' % un(e))
    if isinstance(e, ast.ListComp) and len(e.generators) == 1 and not e.generators[0].ifs and isinstance(e.generators[0].target, ast.Name):
      it, ti = self.ex(e.generators[0].iter, env)
      if ti == 'NM':
        nm = e.generators[0].target.id
        env2 = dict(env)
        env2[nm] = (nm, 'NV')
        b, tb = self.ex(e.elt, env2)
        if tb == 'NV':
          return '(map (fun %s => %s) %s)' % (nm, b, it), 'NM'
      U(e, 'comprehension')
    U(e, 'expression %s' % un(e))

  def fn(self, f, params, rtype):
    names = [a.arg for a in f.args.args]
    if names != [p.split(':')[0] for p in params]:
      U(f, 'parameters %s' % names)
    env = {p.split(':')[0]: (p.split(':')[0], p.split(':')[1]) for p in params}
    body = [s for s in f.body if not (isinstance(s, ast.Expr) and isinstance(s.value, ast.Constant))]
    out = ''
    for st in body[:-1]:
      # r = np.array(r) ; the shape guard of soc ; sm = ...
      if isinstance(st, ast.Assign) and len(st.targets) == 1 and isinstance(st.targets[0], ast.Name):
        t, ty = self.ex(st.value, env)
        nm = st.targets[0].id
        env[nm] = (nm, ty)
        out += 'let %s := %s in ' % (nm, t)
      elif isinstance(st, ast.If) and un(st.test) == 'len(r.shape) != 1' and len(st.body) == 1 and isinstance(st.body[0], ast.Raise) and not st.orelse:
        continue          # a vector is a vector in the model
      elif isinstance(st, ast.If) and not st.orelse and len(st.body) == 1 and isinstance(st.body[0], ast.Return) and isinstance(st.test, ast.Compare) and \
          len(st.test.ops) == 1 and isinstance(st.test.ops[0], ast.Eq):
        a, ta = self.ex(st.test.left, env)
        b, tb = self.ex(st.test.comparators[0], env)
        if ta == 'S' and tb == 'I':
          b = {'0': 'n0', '1': 'n1'}.get(b) or U(st, 'constant')
          t, ty = self.ex(st.body[0].value, env)
          if ty != rtype:
            U(st, 'early return of type %s' % ty)
          out += 'if %s =? %s then %s else ' % (a, b, t)
        else:
          U(st, 'early return test')
      else:
        U(st, 'statement')
    if not isinstance(body[-1], ast.Return):
      U(f, 'no return')
    t, ty = self.ex(body[-1].value, env)
    if ty != rtype:
      U(f, 'result type %s, expected %s' % (ty, rtype))
    return '(%s%s)' % (out, t)


TARGETS = [
  ('power_matrix', ['l:N'], 'NM', '(l : nat) : list (list nat)', 'map (fun i => map (fun j => (i - j)%nat) (seq 0 l)) (seq 0 l)'),
  ('sustainment_matrix', ['s:S', 'l:N'], 'M', '(s : A) (l : nat) : list (list A)', 'sust_matrix s l'),
  ('base_soc', ['b:S', 's:S', 'l:N'], 'V', '(b s : A) (l : nat) : list A', 'base_soc b s l'),
  ('soc', ['r:V', 's:S', 'e:S'], 'V', '(r : list A) (s e : A) : list A', 'soc r s e'),
]


def tr_project(fn):
  """utils.project -> (defaults record, merged options record, problem record)"""
  if [a.arg for a in fn.args.args] != ['p', 'x0', 'bounds', 'constraints', 'solver_options']:
    U(fn, 'parameters')
  body = [s for s in fn.body if not (isinstance(s, ast.Expr) and isinstance(s.value, ast.Constant))]
  if len(body) != 5 or un(body[0]) != 'p = p.flatten()':
    U(fn, 'project body')
  opt = body[1]
  if not (isinstance(opt, ast.Assign) and un(opt.targets[0]) == 'options' and isinstance(opt.value, ast.Dict) and
          all(isinstance(k, ast.Constant) for k in opt.value.keys)):
    U(opt, 'options dictionary')
  d = {k.value: v for k, v in zip(opt.value.keys, opt.value.values)}
  if set(d) != {'ftol', 'disp', 'maxiter'}:
    U(opt, 'option keys %s' % sorted(d))
  def num(e):
    v = e.value if isinstance(e, ast.Constant) else None
    if isinstance(v, bool) or not isinstance(v, (int, float)):
      U(e, 'option value')
    from fractions import Fraction
    # the literal as written: 1e-09 is meant as the decimal 10^-9, which is what the model's n1 / 10^9 denotes
    fr = Fraction(un(e))
    if fr.numerator == 1:
      return '(n1 / nofZ %d)' % fr.denominator
    return '(nofZ %d / nofZ %d)' % (fr.numerator, fr.denominator)
  if not (isinstance(d['disp'], ast.Constant) and isinstance(d['disp'].value, bool)) or not (isinstance(d['maxiter'], ast.Constant) and isinstance(d['maxiter'].value, int)):
    U(opt, 'option values')
  defaults = '{| so_ftol := Some %s; so_maxiter := Some (%d)%%Z; so_disp := Some %s |}' % (num(d['ftol']), d['maxiter'].value, 'true' if d['disp'].value else 'false')
  if un(body[2]) != 'options.update(solver_options)':
    U(body[2], 'options update')
  merged = ('{| so_ftol := over (so_ftol user) (so_ftol project_defaults_gen); so_maxiter := over (so_maxiter user) (so_maxiter project_defaults_gen); '
            'so_disp := over (so_disp user) (so_disp project_defaults_gen) |}')
  call = body[3]
  if not (isinstance(call, ast.Assign) and un(call.targets[0]) == 'o' and isinstance(call.value, ast.Call) and un(call.value.func) == 'minimize' and len(call.value.args) == 2):
    U(call, 'minimize call')
  kws = {k.arg: k.value for k in call.value.keywords}
  if set(kws) != {'method', 'jac', 'options', 'bounds', 'constraints'} or un(kws['method']) != "'SLSQP'" or un(kws['options']) != 'options' or \
     un(kws['bounds']) != 'bounds' or un(kws['constraints']) != 'constraints' or un(call.value.args[1]) != 'x0':
    U(call, 'minimize arguments')
  def lam(l):
    if not (isinstance(l, ast.Lambda) and [a.arg for a in l.args.args] == ['s', 'p'] and len(l.args.defaults) == 1 and un(l.args.defaults[0]) == 'p'):
      U(l, 'lambda')
    return vex(l.body)
  def vex(e):
    """-> (term, 'V' | 'S')"""
    if isinstance(e, ast.Name) and e.id in ('s', 'p'):
      return ('s_arg' if e.id == 's' else '(pc_p pc)'), 'V'
    if isinstance(e, ast.BinOp):
      if isinstance(e.op, ast.Sub):
        a, b = vex(e.left), vex(e.right)
        if (a[1], b[1]) == ('V', 'V'):
          return '(vsub %s %s)' % (a[0], b[0]), 'V'
      if isinstance(e.op, ast.Add):
        a, b = vex(e.left), vex(e.right)
        if (a[1], b[1]) == ('V', 'V'):
          return '(vadd %s %s)' % (a[0], b[0]), 'V'
      if isinstance(e.op, ast.Pow) and un(e.right) == '2':
        a = vex(e.left)
        if a[1] == 'V':
          return '(map nsq %s)' % a[0], 'V'
      if isinstance(e.op, ast.Mult) and isinstance(e.left, ast.Constant) and isinstance(e.left.value, int) and not isinstance(e.left.value, bool):
        a = vex(e.right)
        if a[1] == 'V':
          return '(vscale (nofZ %d) %s)' % (e.left.value, a[0]), 'V'
      U(e, 'operator')
    if isinstance(e, ast.Call) and isinstance(e.func, ast.Attribute) and e.func.attr == 'sum' and not e.args and not e.keywords:
      a = vex(e.func.value)
      if a[1] == 'V':
        return '(vsum %s)' % a[0], 'S'
    U(e, 'expression %s' % un(e))
  f, j = lam(call.value.args[0]), lam(kws['jac'])
  if f[1] != 'S' or j[1] != 'V':
    U(call, 'objective / gradient types %s, %s' % (f[1], j[1]))
  if un(body[4]) != 'return (o.x.reshape(x0.shape), o)':
    U(body[4], 'result')
  problem = ('{| pb_x0 := pc_x0 pc; pb_fun := (fun s_arg => %s); pb_jac := (fun s_arg => %s); pb_bounds := pc_bounds pc; pb_cons := pc_cons pc |}' % (f[0], j[0]))
  return defaults, merged, problem


def tr_zmm(fn):
  """utils.zmm(x, keep, axis=0, fn=None): the two uses the library makes of it - keep a range of rows (axis 0), keep one column (axis 1) -
  are emitted as two definitions, each from ITS branch of the `if axis == 0 / elif axis == 1 / else: raise` statement."""
  a = fn.args
  if [x.arg for x in a.args] != ['x', 'keep', 'axis', 'fn'] or [un(d) for d in a.defaults] != ['0', 'None']:
    U(fn, 'parameters')
  b = [s for s in fn.body if not (isinstance(s, ast.Expr) and isinstance(s.value, ast.Constant))]
  if len(b) != 3 or un(b[0]) != 'r = np.zeros(x.shape)' or un(b[2]) != 'return r' or not isinstance(b[1], ast.If):
    U(fn, 'body')
  st = b[1]
  if un(st.test) != 'axis == 0' or len(st.orelse) != 1 or not isinstance(st.orelse[0], ast.If) or un(st.orelse[0].test) != 'axis == 1':
    U(st, 'axis dispatch')
  el = st.orelse[0]
  if len(el.orelse) != 1 or not isinstance(el.orelse[0], ast.Raise):
    U(el, 'other axes must raise')

  def branch(body, rows):
    if len(body) != 2 or not all(isinstance(s, ast.Assign) for s in body):
      U(st, 'branch')
    g, p = body
    sel = 'x[keep, :]' if rows else 'x[:, keep]'
    if not (isinstance(g.targets[0], ast.Name) and un(g.value) == sel):
      U(g, 'selection')
    i = g.targets[0].id
    tgt = 'r[keep, :]' if rows else 'r[:, keep]'
    if un(p.targets[0]) != tgt or not isinstance(p.value, ast.IfExp) or un(p.value.test) != 'fn' or un(p.value.orelse) != i or \
       un(p.value.body) != 'fn(%s).reshape(%s.shape)' % (i, i):
      U(p, 'assignment')
    if rows:
      return ('(let r_ := mconst (length x) (ncols x) n0 in let %s := get_rows a r x in '
              'set_rows a (match fn with Some f => reshape (length %s) (ncols %s) (f %s) | None => %s end) r_)' % (i, i, i, i, i))
    return ('(let r_ := mconst (length x) (ncols x) n0 in let %s := get_col k x in '
            'set_col k (match fn with Some f => f %s | None => %s end) r_)' % (i, i, i))
  return branch(st.body, True), branch(el.body, False)


def gen_zmm(fns):
  out, tr, untr = [], [], []
  try:
    if 'zmm' not in fns:
      raise Unsupported('?:Module:zmm not found')
    rows, col = tr_zmm(fns['zmm'])
    tr.append('zmm_gen')
    out.append('(* utils.py: zmm *)')
  except Unsupported as e:
    rows = 'set_rows a (match fn with Some f => reshape r (ncols x) (f (get_rows a r x)) | None => get_rows a r x end) (mconst (length x) (ncols x) n0)'
    col = 'set_col k (match fn with Some f => f (get_col k x) | None => get_col k x end) (mconst (length x) (ncols x) n0)'
    untr.append('zmm_gen')
    out.append('(* utils.py: zmm NOT TRANSLATED (%s): alias of the hand-written model, tie falls back to the correspondence *)' % str(e).replace('*)', '* )'))
  out.append('Definition zmm_rows_gen (x : list (list A)) (a r : nat) (fn : option (list (list A) -> list A)) : list (list A) :=\n  %s.\n' % rows)
  out.append('Definition zmm_col_gen (x : list (list A)) (k : nat) (fn : option (list A -> list A)) : list (list A) :=\n  %s.\n' % col)
  return out, tr, untr


def gen_project(fns):
  out, tr, untr = [], [], []
  try:
    if 'project' not in fns:
      raise Unsupported('?:Module:project not found')
    d, m, pb = tr_project(fns['project'])
    tr.append('project_gen')
    out.append('(* utils.py: project *)')
  except Unsupported as e:
    d, m, pb = 'uproject_defaults', 'uproject_options user', 'uproject_problem pc'
    untr.append('project_gen')
    out.append('(* utils.py: project NOT TRANSLATED (%s): alias of the hand-written model, tie falls back to the correspondence *)' % str(e).replace('*)', '* )'))
  out.append('Definition project_defaults_gen : sopts A :=\n  %s.\n' % d)
  out.append('Definition project_options_gen (user : sopts A) : sopts A :=\n  %s.\n' % m)
  out.append('Definition project_problem_gen (pc : projcall A) : problem A :=\n  %s.\n' % pb)
  out.append('Definition project_gen (minimize : problem A -> optresult A) (pc : projcall A) : optresult A :=\n  minimize (project_problem_gen pc).\n')
  return out, tr, untr


def gen_utils(repo):
  fname = os.path.join(repo, 'device_kit', 'utils.py')
  out = ['(* GENERATED by translator/utils_tx.py from device_kit/utils.py -- do not edit. *)',
         'From Coq Require Import ZArith List Bool Arith.', 'From DK Require Import Num Vec.', 'From DK.Model Require Import Leaf Fn Dev Tree Solve SolveOps SetOps NpOps.',
         'Import ListNotations.', 'Section GenUtils.', 'Context {A : Type} `{Num A}.', 'Local Open Scope num_scope.', '']
  try:
    tree = ast.parse(open(fname).read(), fname)
    fns = {f.name: f for f in tree.body if isinstance(f, ast.FunctionDef)}
  except (SyntaxError, OSError):
    fns = {}
  translated, untranslated = [], []
  for (name, params, rtype, sig, fallback) in TARGETS:
    head = 'Definition %s_gen %s :=' % (name, sig)
    try:
      if name not in fns:
        raise Unsupported('?:Module:%s not found' % name)
      body = Tx().fn(fns[name], params, rtype)
      translated.append(name + '_gen')
      out.append('(* utils.py: %s *)' % name)
    except Unsupported as e:
      body = fallback
      untranslated.append(name + '_gen')
      out.append('(* utils.py: %s NOT TRANSLATED (%s): alias of the hand-written model, tie falls back to the correspondence *)' % (name, str(e).replace('*)', '* )')))
    out.append(head + '\n  ' + body + '.\n')
  zo, ztr, zuntr = gen_zmm(fns)
  out += zo
  translated += ztr
  untranslated += zuntr
  po, ptr, puntr = gen_project(fns)
  out += po
  translated += ptr
  untranslated += puntr
  out.append('End GenUtils.')
  out.append('From Coq Require Import String.')
  out.append('Definition utils_translated : list String.string := [%s]%%string.' % '; '.join('"%s"' % x for x in translated))
  out.append('Definition utils_untranslated : list String.string := [%s]%%string.' % '; '.join('"%s"' % x for x in untranslated))
  return '\n'.join(out) + '\n'


if __name__ == '__main__':
  import sys
  print(gen_utils(sys.argv[1] if len(sys.argv) > 1 else '/repo'))
