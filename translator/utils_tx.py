"""device_kit/utils.py: base_soc, soc, sustainment_matrix, power_matrix  ->  coq/Gen/Utils.v.

A typed table of the NumPy array operations these four functions are written in (np.arange, **, *, np.ones, np.triu(., 1), np.tril,
row-wise cumsum, transpose, diagonal, np.sign, np.array of a comprehension over rows), each mapped to a hand-written list function of
Model/NpOps.v.  Proofs/GenUtils.v proves the compositions equal to the closed forms of Model/Leaf.v (sust_matrix, soc, base_soc) that
the recurrences of C09 are proved about.  Graceful per function.
"""
import ast
import os


class Unsupported(Exception):
  pass


def U(node, why):
  raise Unsupported('%s:%s:%s' % (getattr(node, 'lineno', '?'), type(node).__name__, why))


def un(e):
  return ast.unparse(e)


class Tx:
  def ex(self, e, env):
    """-> (term, type); types: S scalar, N nat, V vector, NV nat vector, M matrix, NM nat matrix, SIGN (sign-of vector)"""
    if isinstance(e, ast.Constant) and isinstance(e.value, int) and not isinstance(e.value, bool):
      return str(e.value), 'I'
    if isinstance(e, ast.Name):
      if e.id in env:
        return env[e.id]
      U(e, 'name %s' % e.id)
    if isinstance(e, ast.BinOp):
      a, ta = self.ex(e.left, env)
      b, tb = self.ex(e.right, env)
      op = type(e.op)
      if op is ast.Add and (ta, tb) == ('N', 'I'):
        return '(%s + %s)%%nat' % (a, b), 'N'
      if op is ast.Pow and (ta, tb) == ('S', 'NV'):
        return '(map (fun k => npown %s k) %s)' % (a, b), 'V'
      if op is ast.Pow and (ta, tb) == ('S', 'NM'):
        return '(map (map (fun k => npown %s k)) %s)' % (a, b), 'M'
      if op is ast.Pow and (ta, tb) == ('S', 'SIGN'):
        return '(map (effof %s) %s)' % (a, b), 'V'
      if op is ast.Mult and (ta, tb) == ('S', 'V'):
        return '(map (fun x => %s * x) %s)' % (a, b), 'V'
      if op is ast.Mult and (ta, tb) == ('V', 'V'):
        return '(vmul %s %s)' % (a, b), 'V'
      if op is ast.Mult and (ta, tb) == ('V', 'M'):
        return '(map (fun row => vmul %s row) %s)' % (a, b), 'M'          # a row vector broadcast over the rows
      U(e, 'operator on %s, %s' % (ta, tb))
    if isinstance(e, ast.Call):
      f = e.func
      kws = {k.arg: un(k.value) for k in e.keywords}
      s = un(f)
      if s == 'np.arange' and len(e.args) == 2 and not kws:
        a, ta = self.ex(e.args[0], env)
        b, tb = self.ex(e.args[1], env)
        # np.arange(1, l + 1)
        if ta == 'I' and tb == 'N' and isinstance(e.args[1], ast.BinOp) and un(e.args[1].right) == a:
          l, tl = self.ex(e.args[1].left, env)
          return '(seq %s %s)' % (a, l), 'NV'
        U(e, 'np.arange')
      if s == 'np.sign' and len(e.args) == 1:
        a, ta = self.ex(e.args[0], env)
        if ta == 'V':
          return a, 'SIGN'
      if s == 'np.array' and len(e.args) == 1 and not kws:
        a, ta = self.ex(e.args[0], env)
        if ta in ('V', 'M', 'NM', 'NV'):
          return a, ta
      if s == 'np.ones' and len(e.args) == 1 and isinstance(e.args[0], ast.Tuple) and len(e.args[0].elts) == 2 and un(e.args[0].elts[0]) == un(e.args[0].elts[1]):
        l, tl = self.ex(e.args[0].elts[0], env)
        if tl == 'N':
          return ('ones2', l), 'ONES2'
      if s == 'np.triu' and len(e.args) == 2 and un(e.args[1]) == '1':
        a, ta = self.ex(e.args[0], env)
        if ta == 'ONES2':
          return '(np_triu1_ones %s)' % a[1], 'NM'
      if s == 'np.tril' and len(e.args) == 1:
        a, ta = self.ex(e.args[0], env)
        if ta == 'ONES2':
          return '(np_tril (mconst %s %s n1))' % (a[1], a[1]), 'M'
        if ta == 'M':
          return '(np_tril %s)' % a, 'M'
      if s == 'sustainment_matrix' and len(e.args) == 2:
        a, ta = self.ex(e.args[0], env)
        b, tb = self.ex(e.args[1], env)
        if (ta, tb) == ('S', 'N'):
          return '(sustainment_matrix_gen %s %s)' % (a, b), 'M'
      if s == 'power_matrix' and len(e.args) == 1:
        a, ta = self.ex(e.args[0], env)
        if ta == 'N':
          return '(power_matrix_gen %s)' % a, 'NM'
      if s == 'len' and len(e.args) == 1:
        a, ta = self.ex(e.args[0], env)
        if ta == 'V':
          return '(length %s)' % a, 'N'
      if isinstance(f, ast.Attribute):
        v, tv = self.ex(f.value, env)
        if f.attr == 'cumsum' and not e.args:
          if tv == 'NV' and not kws:
            return '(np_cumsum %s)' % v, 'NV'
          if tv == 'M' and kws == {'axis': '1'}:
            return '(map cumsumA %s)' % v, 'M'
        if f.attr == 'transpose' and not e.args and tv == 'NM' and 'l' in env:
          return '(np_transpose_nat %s %s)' % (env['l'][0], v), 'NM'
        if f.attr == 'diagonal' and not e.args and tv == 'M':
          return '(np_diagonal %s)' % v, 'V'
      U(e, 'call %s' % un(e))
    if isinstance(e, ast.ListComp) and len(e.generators) == 1 and not e.generators[0].ifs and isinstance(e.generators[0].target, ast.Name):
      it, ti = self.ex(e.generators[0].iter, env)
      if ti == 'NM':
        nm = e.generators[0].target.id
        env2 = dict(env)
        env2[nm] = (nm, 'NV')
        b, tb = self.ex(e.elt, env2)
        if tb == 'NV':
          return '(map (fun %s => %s) %s)' % (nm, b, it), 'NM'
      U(e, 'comprehension')
    U(e, 'expression %s' % un(e))

  def fn(self, f, params, rtype):
    names = [a.arg for a in f.args.args]
    if names != [p.split(':')[0] for p in params]:
      U(f, 'parameters %s' % names)
    env = {p.split(':')[0]: (p.split(':')[0], p.split(':')[1]) for p in params}
    body = [s for s in f.body if not (isinstance(s, ast.Expr) and isinstance(s.value, ast.Constant))]
    out = ''
    for st in body[:-1]:
      # r = np.array(r) ; the shape guard of soc ; sm = ...
      if isinstance(st, ast.Assign) and len(st.targets) == 1 and isinstance(st.targets[0], ast.Name):
        t, ty = self.ex(st.value, env)
        nm = st.targets[0].id
        env[nm] = (nm, ty)
        out += 'let %s := %s in ' % (nm, t)
      elif isinstance(st, ast.If) and un(st.test) == 'len(r.shape) != 1' and len(st.body) == 1 and isinstance(st.body[0], ast.Raise) and not st.orelse:
        continue          # a vector is a vector in the model
      elif isinstance(st, ast.If) and not st.orelse and len(st.body) == 1 and isinstance(st.body[0], ast.Return) and isinstance(st.test, ast.Compare) and \
          len(st.test.ops) == 1 and isinstance(st.test.ops[0], ast.Eq):
        a, ta = self.ex(st.test.left, env)
        b, tb = self.ex(st.test.comparators[0], env)
        if ta == 'S' and tb == 'I':
          b = {'0': 'n0', '1': 'n1'}.get(b) or U(st, 'constant')
          t, ty = self.ex(st.body[0].value, env)
          if ty != rtype:
            U(st, 'early return of type %s' % ty)
          out += 'if %s =? %s then %s else ' % (a, b, t)
        else:
          U(st, 'early return test')
      else:
        U(st, 'statement')
    if not isinstance(body[-1], ast.Return):
      U(f, 'no return')
    t, ty = self.ex(body[-1].value, env)
    if ty != rtype:
      U(f, 'result type %s, expected %s' % (ty, rtype))
    return '(%s%s)' % (out, t)


TARGETS = [
  ('power_matrix', ['l:N'], 'NM', '(l : nat) : list (list nat)', 'map (fun i => map (fun j => (i - j)%nat) (seq 0 l)) (seq 0 l)'),
  ('sustainment_matrix', ['s:S', 'l:N'], 'M', '(s : A) (l : nat) : list (list A)', 'sust_matrix s l'),
  ('base_soc', ['b:S', 's:S', 'l:N'], 'V', '(b s : A) (l : nat) : list A', 'base_soc b s l'),
  ('soc', ['r:V', 's:S', 'e:S'], 'V', '(r : list A) (s e : A) : list A', 'soc r s e'),
]


def gen_utils(repo):
  fname = os.path.join(repo, 'device_kit', 'utils.py')
  out = ['(* GENERATED by translator/utils_tx.py from device_kit/utils.py -- do not edit. *)',
         'From Coq Require Import ZArith List Bool Arith.', 'From DK Require Import Num Vec.', 'From DK.Model Require Import Leaf SetOps NpOps.',
         'Import ListNotations.', 'Section GenUtils.', 'Context {A : Type} `{Num A}.', 'Local Open Scope num_scope.', '']
  try:
    tree = ast.parse(open(fname).read(), fname)
    fns = {f.name: f for f in tree.body if isinstance(f, ast.FunctionDef)}
  except (SyntaxError, OSError):
    fns = {}
  translated, untranslated = [], []
  for (name, params, rtype, sig, fallback) in TARGETS:
    head = 'Definition %s_gen %s :=' % (name, sig)
    try:
      if name not in fns:
        raise Unsupported('?:Module:%s not found' % name)
      body = Tx().fn(fns[name], params, rtype)
      translated.append(name + '_gen')
      out.append('(* utils.py: %s *)' % name)
    except Unsupported as e:
      body = fallback
      untranslated.append(name + '_gen')
      out.append('(* utils.py: %s NOT TRANSLATED (%s): alias of the hand-written model, tie falls back to the correspondence *)' % (name, str(e).replace('*)', '* )')))
    out.append(head + '\n  ' + body + '.\n')
  out.append('End GenUtils.')
  out.append('From Coq Require Import String.')
  out.append('Definition utils_translated : list String.string := [%s]%%string.' % '; '.join('"%s"' % x for x in translated))
  out.append('Definition utils_untranslated : list String.string := [%s]%%string.' % '; '.join('"%s"' % x for x in untranslated))
  return '\n'.join(out) + '\n'


if __name__ == '__main__':
  import sys
  print(gen_utils(sys.argv[1] if len(sys.argv) > 1 else '/repo'))
