"""solve() and step() of device_kit/solve.py  ->  coq/Gen/Solve.v, in the vocabulary of Model/Solve.v (the optimiser, the projection helper and
the line search are parameters: oracles; the device is a `devview` record).

Statement by statement: the defaults dictionary and its `.update(solver_options)`, the all-fixed shortcut with its per-constraint test
and tolerances, the default start, the `args` dictionary with its lambdas and the `if prox:` update, the equality-count guard, the call,
`if not o.success: raise`, the reshapes (NumPy raises ValueError on a wrong size: `reshape_or_raise`); for step(): the gradient step with its
sign, the projection call and what it is given, the tolerated report(s), the limited minimisation's objective and bounds, the final
convex combination.  Decimal literals are read as the decimals they spell (1e-6 = 1/10^6).  Graceful per function.
"""
import ast
import os
from fractions import Fraction


class Unsupported(Exception):
  pass


def U(node, why):
  raise Unsupported('%s:%s:%s' % (getattr(node, 'lineno', '?'), type(node).__name__, why))


def un(e):
  return ast.unparse(e)


def dec(node):
  """a numeric literal as the exact decimal it spells"""
  src = un(node)
  try:
    f = Fraction(src)
  except (ValueError, ZeroDivisionError):
    U(node, 'numeric literal %s' % src)
  if f.denominator == 1:
    return {0: 'n0', 1: 'n1'}.get(f.numerator, '(nofZ (%d))' % f.numerator)
  num = {0: 'n0', 1: 'n1'}.get(f.numerator, 'nofZ (%d)' % f.numerator)
  return '(%s / nofZ %d)' % (num, f.denominator)


class Ex:
  """typed expressions shared by solve() and step()"""
  def __init__(self, fn):
    self.fn = fn

  def ex(self, e, env):
    s = un(e)
    if s in env:
      return env[s]
    if isinstance(e, ast.Constant) and isinstance(e.value, (int, float)) and not isinstance(e.value, bool):
      return (dec(e), 'S')
    if isinstance(e, ast.UnaryOp) and isinstance(e.op, ast.USub):
      t, ty = self.ex(e.operand, env)
      if ty == 'S':
        return ('(- %s)' % t, 'S')
      U(e, 'negation of %s' % ty)
    if isinstance(e, ast.Name):
      U(e, 'name %s' % e.id)
    if isinstance(e, ast.BinOp):
      a, ta = self.ex(e.left, env)
      b, tb = self.ex(e.right, env)
      op = type(e.op)
      sym = {ast.Add: '+', ast.Sub: '-', ast.Mult: '*', ast.Div: '/'}.get(op)
      if (ta, tb) == ('S', 'S') and sym:
        return ('(%s %s %s)' % (a, sym, b), 'S')
      if (ta, tb) == ('V', 'V') and op in (ast.Add, ast.Sub):
        return ('(%s %s %s)' % ('vadd' if op is ast.Add else 'vsub', a, b), 'V')
      if (ta, tb) == ('S', 'V') and op is ast.Mult:
        return ('(vscale %s %s)' % (a, b), 'V')
      if (ta, tb) == ('V', 'S') and op is ast.Pow and un(e.right) == '2':
        return ('(map nsq %s)' % a, 'V')
      U(e, 'operator on %s, %s' % (ta, tb))
    if isinstance(e, ast.Call):
      f = e.func
      kws = {k.arg: un(k.value) for k in e.keywords}
      if un(f) == 'np.array' and len(e.args) == 1 and kws in ({}, {'dtype': 'float'}):
        return self.ex(e.args[0], env)
      if un(f) == 'np.atleast_1d' and len(e.args) == 1 and not kws:
        # the value of a constraint as a vector of components: the model's constraints are scalar-valued (one component)
        t, ty = self.ex(e.args[0], env)
        if ty == 'S':
          return (t, 'S1')
      if un(f) == 'np.abs' and len(e.args) == 1 and not kws:
        t, ty = self.ex(e.args[0], env)
        if ty == 'S1':
          return ('(nabs %s)' % t, 'S1')
      if un(f) == 'abs' and len(e.args) == 1:
        t, ty = self.ex(e.args[0], env)
        if ty == 'S':
          return ('(nabs %s)' % t, 'S')
      if un(f) == 'len' and len(e.args) == 1:
        t, ty = self.ex(e.args[0], env)
        if ty in ('V', 'CONS'):
          return ('(length %s)' % t, 'N')
      if un(f) == 'np.zeros' and len(e.args) == 1:
        t, ty = self.ex(e.args[0], env)
        if ty == 'SHAPE':
          return ('(mconst (fst %s) (snd %s) n0)' % (t, t), 'M')
      if isinstance(f, ast.Attribute):
        if f.attr in ('flatten',) and not e.args:
          t, ty = self.ex(f.value, env)
          if ty == 'V':
            return (t, 'V')
          if ty == 'M':
            return ('(concat %s)' % t, 'V')
        if f.attr == 'sum' and not e.args and not kws:
          t, ty = self.ex(f.value, env)
          if ty == 'V':
            return ('(vsum %s)' % t, 'S')
          if ty == 'S':
            return (t, 'S')
        if un(f) == 'device.cost' and len(e.args) == 2 and un(e.args[1]) == 'p':
          t, ty = self.ex(e.args[0], env)
          if ty == 'V':
            return ('(dv_cost dv %s)' % t, 'S')
        if un(f) == 'device.deriv' and len(e.args) == 2 and un(e.args[1]) == 'p':
          t, ty = self.ex(e.args[0], env)
          if ty == 'V':
            return ('(dv_deriv dv %s)' % t, 'M')
        if un(f) == 'device.project' and len(e.args) == 1:
          t, ty = self.ex(e.args[0], env)
          if ty == 'M':
            return ('(dv_project dv %s)' % t, 'M')
      # c['fun'](s)
      if isinstance(f, ast.Subscript) and un(f.slice) == "'fun'" and len(e.args) == 1:
        c, tc = self.ex(f.value, env)
        t, ty = self.ex(e.args[0], env)
        if tc == 'CON' and ty == 'V':
          return ('(c_fun %s %s)' % (c, t), 'S')
      U(e, 'call %s' % un(e))
    if isinstance(e, ast.IfExp) and un(e.test).endswith(' is not None') and un(e.test)[:-12] in env:
      nm = un(e.test)[:-12]
      o, to = env[nm]
      if to == 'OPTV':
        env2 = dict(env)
        env2[nm] = ('sv', 'V')
        a, ta = self.ex(e.body, env2)
        b, tb = self.ex(e.orelse, env)
        # both branches flattened by the caller: keep their own types
        return (('ifsome', o, a, ta, b, tb), 'IFSOME')
    U(e, 'expression %s' % s)

  def test(self, e, env):
    s = un(e)
    if isinstance(e, ast.BoolOp):
      parts = [self.test(v, env) for v in e.values]
      return '(%s)' % (' && ' if isinstance(e.op, ast.And) else ' || ').join(parts)
    if isinstance(e, ast.UnaryOp) and isinstance(e.op, ast.Not):
      return '(negb %s)' % self.test(e.operand, env)
    if isinstance(e, ast.Compare) and len(e.ops) == 1:
      l, r, op = e.left, e.comparators[0], type(e.ops[0])
      if isinstance(l, ast.Subscript) and un(l.slice) == "'type'" and isinstance(r, ast.Constant) and r.value in ('eq', 'ineq') and op in (ast.Eq, ast.NotEq):
        c, tc = self.ex(l.value, env)
        if tc == 'CON':
          t = '(c_eq %s)' % c if r.value == 'eq' else '(negb (c_eq %s))' % c
          return t if op is ast.Eq else '(negb %s)' % t
      a, ta = self.ex(l, env)
      b, tb = self.ex(r, env)
      if (ta, tb) == ('S', 'S'):
        m = {ast.Lt: '(%s <? %s)' % (a, b), ast.Gt: '(%s <? %s)' % (b, a), ast.LtE: '(%s <=? %s)' % (a, b), ast.GtE: '(%s <=? %s)' % (b, a),
             ast.Eq: '(%s =? %s)' % (a, b)}
        if op in m:
          return m[op]
      if (ta, tb) == ('N', 'N'):
        m = {ast.Lt: '(Nat.ltb %s %s)' % (a, b), ast.Gt: '(Nat.ltb %s %s)' % (b, a), ast.Eq: '(Nat.eqb %s %s)' % (a, b)}
        if op in m:
          return m[op]
      if (ta, tb) == ('Z', 'S') and op is ast.Eq and isinstance(r, ast.Constant) and isinstance(r.value, int):
        return '(Z.eqb %s %d)' % (a, r.value)
    # (components <cmp> literal).any() / .all(): a test of every component of a constraint value; the model has one component
    if isinstance(e, ast.Call) and isinstance(e.func, ast.Attribute) and e.func.attr in ('all', 'any') and not e.args and isinstance(e.func.value, ast.Compare) and \
       len(e.func.value.ops) == 1:
      c = e.func.value
      try:
        a, ta = self.ex(c.left, env)
        b, tb = self.ex(c.comparators[0], env)
      except Unsupported:
        a = ta = b = tb = None
      if (ta, tb) == ('S1', 'S'):
        op = type(c.ops[0])
        m = {ast.Lt: '(%s <? %s)' % (a, b), ast.Gt: '(%s <? %s)' % (b, a), ast.LtE: '(%s <=? %s)' % (a, b), ast.GtE: '(%s <=? %s)' % (b, a)}
        if op in m:
          return m[op]
    # (X == Y).all()
    if isinstance(e, ast.Call) and isinstance(e.func, ast.Attribute) and e.func.attr in ('all', 'any') and not e.args and isinstance(e.func.value, ast.Compare) and \
       len(e.func.value.ops) == 1 and isinstance(e.func.value.ops[0], ast.Eq):
      c = e.func.value
      a, ta = self.ex(c.left, env)
      b, tb = self.ex(c.comparators[0], env)
      if (ta, tb) == ('V', 'V'):
        return '(%s (fun ab => fst ab =? snd ab) (combine %s %s))' % ('forallb' if e.func.attr == 'all' else 'existsb', a, b)
    if s in env and env[s][1] == 'B':
      return env[s][0]
    U(e, 'test %s' % s)


def skip(st):
  """docstrings and logging"""
  return (isinstance(st, ast.Expr) and isinstance(st.value, ast.Constant)) or \
         (isinstance(st, ast.Expr) and isinstance(st.value, ast.Call) and un(st.value.func).startswith('logger.'))


def is_raise_opt(st):
  return isinstance(st, ast.Raise) and isinstance(st.exc, ast.Call) and un(st.exc.func) == 'OptimizationException'


DEVENV = {
  'device.bounds': ('(dv_bounds dv)', 'CUBE'), 'device.bounds[:, 0]': ('(map fst (dv_bounds dv))', 'V'), 'device.bounds[:, 1]': ('(map snd (dv_bounds dv))', 'V'),
  'device.lbounds': ('(map fst (dv_bounds dv))', 'V'), 'device.constraints': ('(dv_cons dv)', 'CONS'), 'device.shape': ('(dv_rows dv, dv_n dv)', 'SHAPE'),
}


def lam_body(l, params, xs, env):
  """lambda s, p=p: BODY  ->  (fun s => BODY)"""
  a = l.args
  names = [x.arg for x in a.args]
  if names[:1] != [params[0]] or [un(d) for d in a.defaults] != names[1:] or names[1:] not in ([], ['p']) or a.vararg or a.kwarg:
    U(l, 'lambda signature %s' % names)
  env2 = dict(env)
  env2[params[0]] = (params[0] + '_arg', 'V')
  return xs.ex(l.body, env2), params[0] + '_arg'


def gen_solve_fn(fn):
  xs = Ex(fn)
  a = fn.args
  if [x.arg for x in a.args] != ['device', 'p', 's0', 'solver_options', 'prox', 'cb'] or [un(d) for d in a.defaults] != ['0', 'None', '{}', 'None', 'None']:
    U(fn, 'signature of solve')
  body = [s for s in fn.body if not skip(s)]
  env = dict(DEVENV)
  env['s0'] = ('s0', 'OPTV')
  i = 0
  # 1. defaults and their update
  st = body[i]
  if not (isinstance(st, ast.Assign) and isinstance(st.value, ast.Dict) and un(st.targets[0]) == '_solver_options'):
    U(st, 'defaults dictionary')
  d = {k.value: v for k, v in zip(st.value.keys, st.value.values)}
  if sorted(d) != ['disp', 'ftol', 'maxiter'] or not isinstance(d['disp'], ast.Constant) or d['disp'].value not in (True, False) or \
     not (isinstance(d['maxiter'], ast.Constant) and isinstance(d['maxiter'].value, int)):
    U(st, 'defaults %s' % sorted(d))
  defaults = '{| so_ftol := Some %s; so_maxiter := Some (%d)%%Z; so_disp := Some %s |}' % (dec(d['ftol']), d['maxiter'].value, 'true' if d['disp'].value else 'false')
  i += 1
  updated = False
  if i < len(body) and un(body[i]) == '_solver_options.update(solver_options)':
    updated = True
    i += 1
  options = ('{| so_ftol := over (so_ftol user) (so_ftol solve_defaults_gen); so_maxiter := over (so_maxiter user) (so_maxiter solve_defaults_gen); '
             'so_disp := over (so_disp user) (so_disp solve_defaults_gen) |}') if updated else 'solve_defaults_gen'
  # 2. the all-fixed shortcut
  st = body[i]
  if not (isinstance(st, ast.If) and not st.orelse):
    U(st, 'all-fixed shortcut')
  fixed_test = xs.test(st.test, env)
  blk = [s for s in st.body if not skip(s)]
  if not (len(blk) == 3 and isinstance(blk[0], ast.Assign) and un(blk[0].targets[0]) == 's' and isinstance(blk[1], ast.For) and isinstance(blk[2], ast.Return)):
    U(st, 'shortcut block')
  spt, sty = xs.ex(blk[0].value, env)
  if sty != 'V':
    U(blk[0], 'the fixed point')
  env_s = dict(env)
  env_s['s'] = ('sfix', 'V')
  loop = blk[1]
  if not (isinstance(loop.target, ast.Name) and un(loop.iter) == 'device.constraints'):
    U(loop, 'loop over the constraints')
  c = loop.target.id
  env_c = dict(env_s)
  env_c[c] = (c, 'CON')
  lb = [s for s in loop.body if not skip(s)]
  lets = ''
  for s_ in lb[:-1]:
    if isinstance(s_, ast.Assign) and isinstance(s_.targets[0], ast.Name):
      t, ty = xs.ex(s_.value, env_c)
      env_c[s_.targets[0].id] = (s_.targets[0].id, ty)
      lets += 'let %s := %s in ' % (s_.targets[0].id, t)
    else:
      U(s_, 'statement in the constraint loop')
  if not (isinstance(lb[-1], ast.If) and not lb[-1].orelse and len(lb[-1].body) == 1 and is_raise_opt(lb[-1].body[0])):
    U(lb[-1], 'the violation test')
  viol = '(fun %s => %s%s)' % (c, lets, xs.test(lb[-1].test, env_c))
  ret = blk[2].value
  if not (isinstance(ret, ast.Tuple) and len(ret.elts) == 2 and un(ret.elts[0]) == 's.reshape(device.shape)' and un(ret.elts[1]) == 'None'):
    U(blk[2], 'return of the shortcut')
  shortcut = ('(let sfix := %s in if existsb %s (dv_cons dv) then SRaiseOptimization else '
              'reshape_or_raise dv sfix (fun m => SAccept m None))') % (spt, viol)
  i += 1
  # 3. the start
  st = body[i]
  if not (isinstance(st, ast.Assign) and un(st.targets[0]) == 's0'):
    U(st, 'start point')
  v = st.value
  if not (isinstance(v, ast.Call) and isinstance(v.func, ast.Attribute) and v.func.attr == 'flatten' and not v.args):
    U(st, 'start point is not flattened')
  t, ty = xs.ex(v.func.value, env)
  if ty != 'IFSOME':
    U(st, 'start point')
  _, o, a_, ta, b_, tb = t
  flat = lambda x, tx: x if tx == 'V' else '(concat %s)' % x if tx == 'M' else U(st, 'start of type %s' % tx)
  x0 = '(match %s with Some sv => %s | None => %s end)' % (o, flat(a_, ta), flat(b_, tb))
  env['s0'] = ('x0', 'V')
  i += 1
  # 4. args
  st = body[i]
  if not (isinstance(st, ast.Assign) and un(st.targets[0]) == 'args' and isinstance(st.value, ast.Dict)):
    U(st, 'args dictionary')
  args = {}
  for k, v in zip(st.value.keys, st.value.values):
    key = k.value
    if key in ('fun', 'jac'):
      if not isinstance(v, ast.Lambda):
        U(v, 'args[%s]' % key)
      (t, ty), x = lam_body(v, ['s'], xs, env)
      if ty != {'fun': 'S', 'jac': 'V'}[key]:
        U(v, 'args[%s] of type %s' % (key, ty))
      args[key] = '(fun %s => %s)' % (x, t)
    elif key == 'x0':
      t, ty = xs.ex(v, env)
      args[key] = t if ty == 'V' else U(v, 'x0')
    elif key == 'bounds':
      t, ty = xs.ex(v, env)
      args[key] = t if ty == 'CUBE' else U(v, 'bounds')
    elif key == 'constraints':
      t, ty = xs.ex(v, env)
      args[key] = t if ty == 'CONS' else U(v, 'constraints')
    elif key == 'method':
      if un(v) != "'SLSQP'":
        U(v, 'method')
    elif key == 'options':
      if un(v) != '_solver_options':
        U(v, 'options')
    else:
      U(k, 'args key %s' % key)
  if sorted(args) != ['bounds', 'constraints', 'fun', 'jac', 'x0']:
    U(st, 'args keys %s' % sorted(args))
  i += 1
  proxargs = None
  while i < len(body) and isinstance(body[i], ast.If) and not body[i].orelse and len(body[i].body) == 1 and un(body[i].test) in ('cb', 'prox'):
    upd = body[i].body[0]
    if not (isinstance(upd, ast.Expr) and isinstance(upd.value, ast.Call) and un(upd.value.func) == 'args.update' and isinstance(upd.value.args[0], ast.Dict)):
      U(upd, 'args.update')
    dd = upd.value.args[0]
    keys = [k.value for k in dd.keys]
    if un(body[i].test) == 'cb':
      if keys != ['callback']:
        U(upd, 'callback update')
    else:
      if sorted(keys) != ['fun', 'jac']:
        U(upd, 'prox update of %s' % keys)
      envp = dict(env)
      envp['prox'] = ('r', 'S')
      proxargs = dict(args)
      for k, v in zip(dd.keys, dd.values):
        (t, ty), x = lam_body(v, ['s'], xs, envp)
        if ty != {'fun': 'S', 'jac': 'V'}[k.value]:
          U(v, 'prox %s of type %s' % (k.value, ty))
        proxargs[k.value] = '(fun %s => %s)' % (x, t)
    i += 1
  mk = lambda a: '{| pb_x0 := %s; pb_fun := %s; pb_jac := %s; pb_bounds := %s; pb_cons := %s |}' % (a['x0'], a['fun'], a['jac'], a['bounds'], a['constraints'])
  problem = mk(args) if proxargs is None else '(match prox_on prox with None => %s | Some r => %s end)' % (mk(args), mk(proxargs))
  # 5. the equality-count guard
  guard = None
  if i + 1 < len(body) and isinstance(body[i], ast.Assign) and un(body[i].targets[0]) == 'meq':
    if un(body[i].value) != "sum((1 for c in args['constraints'] if c['type'] == 'eq'))":
      U(body[i], 'meq')
    g = body[i + 1]
    if not (isinstance(g, ast.If) and not g.orelse and len(g.body) == 1 and is_raise_opt(g.body[0])):
      U(g, 'equality-count guard')
    envg = dict(env)
    envg['meq'] = ('(count_eq (pb_cons pb))', 'N')
    envg['s0'] = ('(pb_x0 pb)', 'V')
    guard = xs.test(g.test, envg)
    i += 2
  # 6. the call and what is returned
  if un(body[i]) != 'o = minimize(**args)':
    U(body[i], 'the call')
  i += 1
  chk = body[i]
  if not (isinstance(chk, ast.If) and not chk.orelse and len(chk.body) == 1 and is_raise_opt(chk.body[0])):
    U(chk, 'report check')
  envo = dict(env)
  envo['o.success'] = ('(o_success o)', 'B')
  envo['o.status'] = ('(o_status o)', 'Z')
  fail = xs.test(chk.test, envo)
  i += 1
  ret = body[i]
  if not (isinstance(ret, ast.Return) and isinstance(ret.value, ast.Tuple) and len(ret.value.elts) == 2 and un(ret.value.elts[0]) in ('o.x.reshape(device.shape)', '(o.x).reshape(device.shape)') and
          un(ret.value.elts[1]) == 'o') or i + 1 != len(body):
    U(ret, 'return')
  tail = '(let o := minimize pb in if %s then SRaiseOptimization else reshape_or_raise dv (o_x o) (fun m => SAccept m (Some o)))' % fail
  if guard:
    tail = '(if %s then SRaiseOptimization else %s)' % (guard, tail)
  main = '(let x0 := %s in let pb := %s in %s)' % (x0, problem, tail)
  return defaults, options, '(if %s then %s else %s)' % (fixed_test, shortcut, main)


def gen_step_fn(fn):
  xs = Ex(fn)
  a = fn.args
  if [x.arg for x in a.args] != ['device', 'p', 's', 'stepsize', 'solver_options'] or [un(d) for d in a.defaults] != ['1', '{}']:
    U(fn, 'signature of step')
  body = [s for s in fn.body if not skip(s)]
  env = dict(DEVENV)
  env['stepsize'] = ('t', 'S')
  if un(body[0]) != 's = np.array(s, dtype=float).flatten()':
    U(body[0], 'flattening of the start')
  env['s'] = ('s', 'V')
  st = body[1]
  if not (isinstance(st, ast.Assign) and un(st.targets[0]) == 's_next'):
    U(st, 'gradient step')
  envg = dict(env)
  envg['np.array(device.deriv(s, p)).flatten()'] = ('(concat (dv_deriv dv s))', 'V')
  target, ty = xs.ex(st.value, envg)
  if ty != 'V':
    U(st, 'gradient step of type %s' % ty)
  st = body[2]
  if un(st) not in ('(s_next, o) = project(s_next, s, device.bounds, device.constraints)', 's_next, o = project(s_next, s, device.bounds, device.constraints)'):
    U(st, 'projection call: %s' % un(st))
  chk = body[3]

  def tolerated(chk, o):
    """if not o.success: if o.status == 8: logger.warn(o) else: raise   ->  the condition under which step raises"""
    if not (isinstance(chk, ast.If) and not chk.orelse and un(chk.test) == 'not %s.success' % o and len(chk.body) == 1 and isinstance(chk.body[0], ast.If)):
      U(chk, 'report check')
    inner = chk.body[0]
    envo = {'%s.status' % o: ('(o_status %s)' % o, 'Z')}
    if not (len(inner.body) == 1 and skip(inner.body[0]) and len(inner.orelse) == 1 and is_raise_opt(inner.orelse[0])):
      U(inner, 'tolerated report')
    return '(negb (o_success %s) && negb %s)' % (o, xs.test(inner.test, envo))
  raise1 = tolerated(chk, 'o')
  ls = body[4]
  if not (isinstance(ls, ast.Assign) and un(ls.targets[0]) == 'ol' and isinstance(ls.value, ast.Call) and un(ls.value.func) == 'minimize'):
    U(ls, 'limited minimisation')
  call = ls.value
  kws = {k.arg: k.value for k in call.keywords}
  if len(call.args) != 2 or un(call.args[1]) not in ('0.0', '0.', '0') or un(kws.get('method')) != "'SLSQP'" or un(kws.get('options')) != 'solver_options' or \
     sorted(kws) != ['bounds', 'method', 'options']:
    U(ls, 'arguments of the limited minimisation')
  b = kws['bounds']
  if not (isinstance(b, ast.List) and len(b.elts) == 1 and isinstance(b.elts[0], ast.Tuple) and len(b.elts[0].elts) == 2):
    U(b, 'bounds of the limited minimisation')
  envb = dict(env)
  lo, tl = xs.ex(b.elts[0].elts[0], envb)
  hi, th = xs.ex(b.elts[0].elts[1], envb)
  lam = call.args[0]
  if not (isinstance(lam, ast.Lambda) and [x.arg for x in lam.args.args] == ['x', 'p'] and [un(d) for d in lam.args.defaults] == ['p']):
    U(lam, 'objective of the limited minimisation')
  envl = dict(env)
  envl['s_next'] = ('z', 'V')
  envl['x'] = ('x', 'S')
  phi, tp = xs.ex(lam.body, envl)
  if tp != 'S':
    U(lam, 'objective type')
  raise2 = tolerated(body[5], 'ol')
  fin = body[6]
  if not (isinstance(fin, ast.Assign) and un(fin.targets[0]) == 's_next' and isinstance(fin.value, ast.Call) and un(fin.value.func).endswith('.reshape') and un(fin.value.args[0]) == 'device.shape'):
    U(fin, 'final point')
  envf = dict(envl)
  envf['ol.x'] = ('xl', 'S')
  pt, tpt = xs.ex(fin.value.func.value, envf)
  if tpt != 'V':
    U(fin, 'final point of type %s' % tpt)
  if un(body[7]) != 'return (s_next, ol)' or len(body) != 8:
    U(body[7], 'return')
  return (target, raise1, (lo, hi), phi, raise2, pt)


def gen_solve(repo):
  fname = os.path.join(repo, 'device_kit', 'solve.py')
  out = ['(* GENERATED by translator/solve_tx.py from device_kit/solve.py -- do not edit. *)',
         'From Coq Require Import ZArith List Bool Arith.', 'From DK Require Import Num Vec.', 'From DK.Model Require Import Leaf Fn Dev Tree Solve SolveOps.',
         'Import ListNotations.', 'Section GenSolve.', 'Context {A : Type} `{Num A}.', 'Local Open Scope num_scope.', '']
  translated, untranslated = [], []
  try:
    tree = ast.parse(open(fname).read(), fname)
    fns = {f.name: f for f in tree.body if isinstance(f, ast.FunctionDef)}
  except (SyntaxError, OSError):
    fns = {}
  try:
    if 'solve' not in fns:
      raise Unsupported('?:Module:solve not found')
    defaults, options, body = gen_solve_fn(fns['solve'])
    translated.append('solve_gen')
    out.append('(* solve.py: solve *)')
  except Unsupported as e:
    defaults, options, body = 'default_opts', 'solve_options user', 'solve_model minimize dv s0 prox'
    untranslated.append('solve_gen')
    out.append('(* solve.py: solve NOT TRANSLATED (%s): alias of the hand-written model, tie falls back to the correspondence *)' % str(e).replace('*)', '* )'))
  out.append('Definition solve_defaults_gen : sopts A :=\n  %s.\n' % defaults)
  out.append('Definition solve_options_gen (user : sopts A) : sopts A :=\n  %s.\n' % options)
  out.append('Definition solve_gen (minimize : problem A -> optresult A) (dv : devview A) (s0 : option (list A)) (prox : option A) : sres A :=\n  %s.\n' % body)
  try:
    if 'step' not in fns:
      raise Unsupported('?:Module:step not found')
    target, raise1, (lo, hi), phi, raise2, pt = gen_step_fn(fns['step'])
    body = ('(let target := %s in let o := uproject {| pc_p := target; pc_x0 := s; pc_bounds := dv_bounds dv; pc_cons := dv_cons dv |} in '
            'if negb (Nat.eqb (length (o_x o)) (length s)) then StRaiseValueError else if %s then StRaiseOptimization else '
            'let z := o_x o in let ol := linesearch (%s, %s) (fun x => %s) in if %s then StRaiseOptimization else '
            'match o_x ol with [xl] => step_reshape_or_raise dv %s (fun m => StAccept m ol) | _ => StRaiseValueError end)') % (target, raise1, lo, hi, phi, raise2, pt)
    translated.append('step_gen')
    out.append('(* solve.py: step *)')
  except Unsupported as e:
    body = 'step_model uproject (linesearch (n0, n1)) dv s t'
    untranslated.append('step_gen')
    out.append('(* solve.py: step NOT TRANSLATED (%s): alias of the hand-written model, tie falls back to the correspondence *)' % str(e).replace('*)', '* )'))
  out.append('Definition step_gen (uproject : projcall A -> optresult A) (linesearch : A * A -> (A -> A) -> optresult A) (dv : devview A) (s : list A) (t : A) : stres A :=\n  %s.\n' % body)
  out.append('End GenSolve.')
  out.append('From Coq Require Import String.')
  out.append('Definition solve_translated : list String.string := [%s]%%string.' % '; '.join('"%s"' % x for x in translated))
  out.append('Definition solve_untranslated : list String.string := [%s]%%string.' % '; '.join('"%s"' % x for x in untranslated))
  return '\n'.join(out) + '\n'


if __name__ == '__main__':
  import sys
  print(gen_solve(sys.argv[1] if len(sys.argv) > 1 else '/repo'))
