"""MFDeviceSet (device_kit/mfdeviceset.py): cost / deriv / hess / project and the constructor's guards and conduit bounds
->  coq/Gen/MFDeviceSet.v.  The wrapped device is abstract (a `wdev` record, Model/SetOps.v); `self.shape` is the inherited
DeviceSet.shape over the conduit devices (Gen/DeviceSet.v).  Graceful per method.
"""
import ast
import os
from deviceset_tx import Unsupported, U

COQTYPE = {'S': 'A', 'V': 'list A', 'M': 'list (list A)', 'PRICE': 'price', 'CUBE': 'list (A * A)'}
DECL = '(dev : wdev) (conduits : list kid) (n : nat)'
TARGETS = [
  ('cost', ['s:V', 'p:PRICE'], 'S',
   'w_cost dev (colsum n (reshape (fst (DeviceSet_shape conduits n)) n s)) (zeros n) + msumall (mmul (reshape (fst (DeviceSet_shape conduits n)) n s) (price_rows (fst (DeviceSet_shape conduits n)) n p))'),
  ('deriv', ['s:V', 'p:PRICE'], 'M',
   'madd (repeat (w_deriv dev (colsum n (reshape (fst (DeviceSet_shape conduits n)) n s)) (zeros n)) (fst (DeviceSet_shape conduits n))) (price_rows (fst (DeviceSet_shape conduits n)) n p)'),
  ('hess', ['s:V', 'p:PRICE'], 'M', 'w_hess dev (colsum n (reshape (fst (DeviceSet_shape conduits n)) n s)) (zeros n)'),
  ('project', ['s:V'], 'M',
   'repeat (map (fun v => v / nofnat (fst (DeviceSet_shape conduits n))) (w_project dev (colsum n (reshape (fst (DeviceSet_shape conduits n)) n s)))) (fst (DeviceSet_shape conduits n))'),
]
SHAPE = '(DeviceSet_shape conduits n)'


class Tx:
  def __init__(self, tree):
    self.node = next(c for c in tree.body if isinstance(c, ast.ClassDef) and c.name == 'MFDeviceSet')
    if [ast.unparse(b) for b in self.node.bases] != ['DeviceSet']:
      U(self.node, 'base classes')
    self.init_ok = None

  def method(self, name):
    for m in self.node.body:
      if isinstance(m, ast.FunctionDef) and m.name == name and not m.decorator_list:
        return m
    U(self.node, 'method %s' % name)

  def check_init(self):
    """self._device / self._length / self._devices as the methods assume; `shape` is not overridden"""
    if self.init_ok:
      return
    init = self.method('__init__')
    got = {ast.unparse(s.targets[0]): ast.unparse(s.value) for s in init.body if isinstance(s, ast.Assign) and len(s.targets) == 1}
    if got.get('self._device') != 'device' or got.get('self._length') != 'len(device)' or got.get('self._devices') != '[]':
      U(init, 'constructor')
    ln = self.method('__len__')
    b = [s for s in ln.body if not (isinstance(s, ast.Expr) and isinstance(s.value, ast.Constant))]
    if not (len(b) == 1 and isinstance(b[0], ast.Return) and ast.unparse(b[0].value) == 'self._length'):
      U(ln, '__len__')
    if any(isinstance(m, ast.FunctionDef) and m.name in ('shape', 'shapes', 'devices') for m in self.node.body):
      U(self.node, 'shape / shapes / devices overridden')
    self.init_ok = True

  def is_shape(self, e):
    return ast.unparse(e) == 'self.shape'

  def ex(self, e, env):
    if isinstance(e, ast.Constant) and isinstance(e.value, int) and not isinstance(e.value, bool):
      return str(e.value), 'I'
    if isinstance(e, ast.Name):
      if e.id in env:
        return env[e.id]
      U(e, 'name %s' % e.id)
    if self.is_shape(e):
      self.check_init()
      return SHAPE, 'SHAPE'
    if isinstance(e, ast.Subscript) and self.is_shape(e.value) and isinstance(e.slice, ast.Constant) and e.slice.value == 0:
      self.check_init()
      return '(fst %s)' % SHAPE, 'N'
    if isinstance(e, ast.BinOp):
      a, ta = self.ex(e.left, env)
      b, tb = self.ex(e.right, env)
      if isinstance(e.op, ast.Add) and (ta, tb) == ('S', 'S'):
        return '(%s + %s)' % (a, b), 'S'
      if isinstance(e.op, ast.Add) and (ta, tb) == ('M', 'PRICE'):
        return '(madd %s (price_rows (fst %s) n %s))' % (a, SHAPE, b), 'M'
      if isinstance(e.op, ast.Mult) and (ta, tb) == ('M', 'PRICE'):
        return '(mmul %s (price_rows (fst %s) n %s))' % (a, SHAPE, b), 'M'
      if isinstance(e.op, ast.Div) and (ta, tb) == ('V', 'N'):
        return '(map (fun v => v / nofnat %s) %s)' % (b, a), 'V'
      U(e, 'operator on %s, %s' % (ta, tb))
    if isinstance(e, ast.Call):
      return self.call(e, env)
    U(e, 'expression')

  def call(self, e, env):
    f = e.func
    kws = {k.arg: ast.unparse(k.value) for k in e.keywords}
    if not isinstance(f, ast.Attribute):
      U(e, 'call')
    # np.repeat(X, self.shape[0], axis=0)
    if ast.unparse(f) == 'np.repeat' and len(e.args) == 2 and kws == {'axis': '0'}:
      x, tx = self.ex(e.args[0], env)
      k, tk = self.ex(e.args[1], env)
      if tx in ('V', 'ROW') and tk == 'N':
        return '(repeat %s %s)' % (x, k), 'M'
      U(e, 'np.repeat of %s' % tx)
    # the wrapped device
    if isinstance(f.value, ast.Attribute) and ast.unparse(f.value) == 'self._device':
      self.check_init()
      args = [self.ex(a, env) for a in e.args]
      if f.attr in ('cost', 'deriv', 'hess') and len(args) == 2 and args[0][1] == 'V' and args[1] == ('0', 'I') and not kws:
        return '(w_%s dev %s (zeros n))' % (f.attr, args[0][0]), {'cost': 'S', 'deriv': 'V', 'hess': 'M'}[f.attr]
      if f.attr == 'project' and len(args) == 1 and args[0][1] == 'V' and not kws:
        return '(w_project dev %s)' % args[0][0], 'V'
      U(e, 'call of self._device.%s' % f.attr)
    t, ty = self.ex(f.value, env)
    if f.attr == 'reshape':
      if len(e.args) == 1 and self.is_shape(e.args[0]) and not kws:
        if ty == 'V':
          return '(reshape (fst %s) (snd %s) %s)' % (SHAPE, SHAPE, t), 'M'
        if ty == 'M':
          return t, 'M'
      if len(e.args) == 2 and ast.unparse(e.args[0]) == '1' and ast.unparse(e.args[1]) == 'len(self)' and ty == 'V' and not kws:
        self.check_init()
        return t, 'ROW'
      U(e, 'reshape')
    if f.attr == 'sum' and not e.args:
      if ty == 'M' and kws == {'axis': '0'}:
        self.check_init()
        return '(colsum n %s)' % t, 'V'
      if ty == 'M' and not kws:
        return '(msumall %s)' % t, 'S'
    U(e, 'call of .%s on %s' % (f.attr, ty))

  def stmts(self, body, env):
    if not body:
      U(ast.Pass(), 'falls off the end')
    s, rest = body[0], body[1:]
    if isinstance(s, ast.Expr) and isinstance(s.value, ast.Constant) and isinstance(s.value.value, str):
      return self.stmts(rest, env)
    if isinstance(s, ast.Return) and s.value is not None:
      return self.ex(s.value, env)
    if isinstance(s, ast.Assign) and len(s.targets) == 1 and isinstance(s.targets[0], ast.Name):
      t, ty = self.ex(s.value, env)
      nm = s.targets[0].id
      fresh = nm + "'" if nm in ('dev', 'conduits', 'n') else nm
      env2 = dict(env)
      env2[nm] = (fresh, ty)
      b, tb = self.stmts(rest, env2)
      return '(let %s := %s in %s)' % (fresh, t, b), tb
    U(s, 'statement')

  def translate(self, name, params, rtype):
    m = self.method(name)
    names = [a.arg for a in m.args.args][1:]
    if names != [p.split(':')[0] for p in params] or m.args.vararg or m.args.kwarg or m.args.kwonlyargs:
      U(m, 'parameters %s' % names)
    env = {p.split(':')[0]: (p.split(':')[0], p.split(':')[1]) for p in params}
    t, ty = self.stmts(m.body, env)
    if ty != rtype:
      U(m, 'result type %s, expected %s' % (ty, rtype))
    return t

  def ctor(self):
    """the two guards and the conduit bounds"""
    init = self.method('__init__')
    if [a.arg for a in init.args.args][1:] != ['device', 'flows']:
      U(init, 'parameters')
    body = [s for s in init.body if not (isinstance(s, ast.Expr) and isinstance(s.value, ast.Constant))]
    def tst(e):
      """(device.lbounds < 0).any(), (device.hbounds > 0).all(), and / or / not, len(flows)"""
      if isinstance(e, ast.BoolOp):
        return '(%s)' % (' && ' if isinstance(e.op, ast.And) else ' || ').join(tst(v) for v in e.values)
      if isinstance(e, ast.UnaryOp) and isinstance(e.op, ast.Not):
        if ast.unparse(e.operand) == 'len(flows)':
          return '(Nat.eqb k 0)'
        return '(negb %s)' % tst(e.operand)
      if isinstance(e, ast.Call) and isinstance(e.func, ast.Attribute) and e.func.attr in ('any', 'all') and not e.args and not e.keywords and \
         isinstance(e.func.value, ast.Compare) and len(e.func.value.ops) == 1:
        c = e.func.value
        v = {'device.lbounds': 'lb', 'device.hbounds': 'hb'}.get(ast.unparse(c.left))
        if v and isinstance(c.comparators[0], ast.Constant) and c.comparators[0].value == 0 and type(c.ops[0]) in (ast.Lt, ast.Gt, ast.LtE, ast.GtE):
          cmp = {ast.Lt: 'x <? n0', ast.Gt: 'n0 <? x', ast.LtE: 'x <=? n0', ast.GtE: 'n0 <=? x'}[type(c.ops[0])]
          return '(%s (fun x => %s) %s)' % ('existsb' if e.func.attr == 'any' else 'forallb', cmp, v)
      U(e, 'test')

    def pair(st):
      """bounds = (X, Y) with X, Y in device.lbounds / device.hbounds / np.zeros(len(device))"""
      if isinstance(st, ast.Assign) and ast.unparse(st.targets[0]) == 'bounds' and isinstance(st.value, ast.Tuple) and len(st.value.elts) == 2:
        m = {'device.lbounds': 'lb', 'device.hbounds': 'hb', 'np.zeros(len(device))': '(zeros (length lb))'}
        a, b = [m.get(ast.unparse(x)) for x in st.value.elts]
        if a and b:
          return '(combine %s %s)' % (a, b)
      U(st, 'conduit bounds')
    guards = [s for s in body if isinstance(s, ast.If) and len(s.body) == 1 and isinstance(s.body[0], ast.Raise) and not s.orelse]
    if body[:len(guards)] != guards or not guards or any('ValueError' not in ast.unparse(g.body[0]) for g in guards):
      U(init, 'guards')
    guard = '(%s)' % ' || '.join(tst(g.test) for g in guards)
    sel = [s for s in body if isinstance(s, ast.If) and s not in guards]
    if len(sel) != 1 or len(sel[0].body) != 1 or len(sel[0].orelse) != 1:
      U(init, 'conduit bounds selection')
    cb = 'if %s then %s else %s' % (tst(sel[0].test), pair(sel[0].body[0]), pair(sel[0].orelse[0]))
    loops = [s for s in body if isinstance(s, ast.For)]
    if len(loops) != 1 or ast.unparse(loops[0].iter) != 'flows' or \
       [ast.unparse(x) for x in loops[0].body] != ['self._devices.append(Device(%s, len(device), np.stack(bounds, axis=1)))' % ast.unparse(loops[0].target)]:
      U(init, 'conduit construction')
    return guard, cb


def gen_mfdeviceset(repo):
  fname = os.path.join(repo, 'device_kit', 'mfdeviceset.py')
  out = ['(* GENERATED by translator/mfdeviceset_tx.py from device_kit/mfdeviceset.py -- do not edit. *)',
         'From Coq Require Import ZArith List Bool Arith.', 'From DK Require Import Num Vec.', 'From DK.Model Require Import Leaf Fn Dev Tree SetOps.',
         'From DK.Gen Require Import DeviceSet.', 'Import ListNotations.', 'Section GenMFDeviceSet.', 'Context {A : Type} `{Num A}.',
         'Local Open Scope num_scope.', 'Notation kid := (kid A).', 'Notation wdev := (wdev A).', 'Notation price := (price A).', '']
  try:
    tx = Tx(ast.parse(open(fname).read(), fname))
  except (SyntaxError, StopIteration, OSError, Unsupported):
    tx = None
  translated, untranslated = [], []
  for (m, params, rtype, fallback) in TARGETS:
    binders = ' '.join('(%s : %s)' % (p.split(':')[0], COQTYPE[p.split(':')[1]]) for p in params)
    head = 'Definition MFDeviceSet_%s %s %s : %s :=' % (m, DECL, binders, COQTYPE[rtype])
    try:
      if tx is None:
        raise Unsupported('?:Module:cannot read mfdeviceset.py')
      body = tx.translate(m, params, rtype)
      translated.append('MFDeviceSet_' + m)
      out.append('(* mfdeviceset.py: MFDeviceSet.%s *)' % m)
    except Unsupported as e:
      body = fallback
      untranslated.append('MFDeviceSet_' + m)
      out.append('(* mfdeviceset.py: MFDeviceSet.%s NOT TRANSLATED (%s): alias of the hand-written model, tie falls back to the correspondence *)' % (
          m, str(e).replace('*)', '* )')))
    out.append(head + '\n  ' + body + '.\n')
  try:
    if tx is None:
      raise Unsupported('?:Module:cannot read mfdeviceset.py')
    guard, cb = tx.ctor()
    translated.append('MFDeviceSet_init')
    out.append('(* mfdeviceset.py: MFDeviceSet.__init__ (ValueError guards, bounds of every conduit device) *)')
  except Unsupported as e:
    guard, cb = 'mf_ctor_rejects k lb hb', 'mf_conduit_bounds lb hb'
    untranslated.append('MFDeviceSet_init')
    out.append('(* mfdeviceset.py: MFDeviceSet.__init__ NOT TRANSLATED (%s): alias of the hand-written model *)' % str(e).replace('*)', '* )'))
  out.append('Definition MFDeviceSet_init_rejects (k : nat) (lb hb : list A) : bool :=\n  %s.\n' % guard)
  out.append('Definition MFDeviceSet_conduit_bounds (lb hb : list A) : list (A * A) :=\n  %s.\n' % cb)
  out.append('End GenMFDeviceSet.')
  out.append('From Coq Require Import String.')
  out.append('Definition mfdeviceset_translated : list String.string := [%s]%%string.' % '; '.join('"%s"' % x for x in translated))
  out.append('Definition mfdeviceset_untranslated : list String.string := [%s]%%string.' % '; '.join('"%s"' % x for x in untranslated))
  return '\n'.join(out) + '\n'


if __name__ == '__main__':
  import sys
  print(gen_mfdeviceset(sys.argv[1] if len(sys.argv) > 1 else '/repo'))
