"""The `constraints` properties (lists of SciPy constraint dicts built from closures)  ->  coq/Gen/Constraints.v.

  Device.constraints                 cumulative bounds
  SDevice.constraints                state of charge in [0, capacity], rate clipping, reserve (on top of Device.constraints)
  DeviceSet.constraints              children's constraints re-wrapped onto their rows + aggregate (sbounds) constraints
  SubBalancedDeviceSet.constraints   + label balancing
  MFDeviceSet.constraints            + the wrapped device's constraints on the column sum
  TwoRatioMFDeviceSet.constraints    + the ratio constraint per slot

What is translated is the STRUCTURE that the seeded changes and the repaired defects were about: which loops run over what, what
each lambda captures through default arguments (bound at definition) and what it leaves free (Python binds those LATE: a free
variable assigned inside a loop has, when the constraint is called, the value of the LAST iteration - the translator emits exactly
that), `if` / `else` on the aggregate bounds, the order of the list, types, signs and limits.  The NumPy idioms inside the lambdas
(reshape + row / column slices, zmm padding, np.tile, dot with a mask) are mapped onto the hand-written helpers of Model/Tree.v and
Model/Dev.v (sub_flat, zpad, slot_total, col_jac, range_mask, indicator, ...), recognised by shape.  Graceful per method.
"""
import ast
import os


class Unsupported(Exception):
  pass


def U(node, why):
  raise Unsupported('%s:%s:%s' % (getattr(node, 'lineno', '?'), type(node).__name__, why))


def un(e):
  return ast.unparse(e)


class Val:
  """a Python value during translation: Coq term + type (+ the loops it depends on, for late binding)"""
  def __init__(self, term, ty, loops=()):
    self.term, self.ty, self.loops = term, ty, tuple(loops)


class CTx:
  def __init__(self, tree, cls, cfg):
    self.cls, self.cfg = cls, cfg
    self.node = next(c for c in tree.body if isinstance(c, ast.ClassDef) and c.name == cls)
    self.fresh = 0

  def method(self):
    for m in self.node.body:
      if isinstance(m, ast.FunctionDef) and m.name == 'constraints' and any(isinstance(d, ast.Name) and d.id == 'property' for d in m.decorator_list):
        return m
    U(self.node, 'constraints property')

  def translate(self):
    m = self.method()
    self.loops = []          # enclosing for loops: (coq binder, iterable term, default element)
    return self.block(m.body, dict(self.cfg.get('env', {})))

  # ---- statements: the list this block contributes
  def block(self, stmts, env):
    if not stmts:
      return '[]'
    s, rest = stmts[0], stmts[1:]
    app = lambda a, b: a if b == '[]' else b if a == '[]' else '(%s ++ %s)' % (a, b)
    if isinstance(s, ast.Expr) and isinstance(s.value, ast.Constant) and isinstance(s.value.value, str):
      return self.block(rest, env)
    if isinstance(s, ast.Return):
      if un(s.value) != 'constraints':
        U(s, 'return')
      return '[]'
    if isinstance(s, ast.FunctionDef):
      env2 = dict(env)
      env2[s.name] = Val(('def', s, dict(env)), 'PYFUN')
      return self.block(rest, env2)
    if isinstance(s, ast.Assign) and len(s.targets) == 1:
      t = s.targets[0]
      if isinstance(t, ast.Name) and t.id == 'constraints':
        src = un(s.value)
        if src == '[]':
          return self.block(rest, env)
        if src in self.cfg.get('inits', {}):
          return app(self.cfg['inits'][src], self.block(rest, env))
        U(s, 'initial list %s' % src)
      # name = {...} / dict(constraint): a constraint under construction
      if isinstance(t, ast.Name) and isinstance(s.value, ast.Dict):
        env2 = dict(env)
        env2[t.id] = Val(self.dict_fields(s.value, env), 'CDICT')
        return self.block(rest, env2)
      if isinstance(t, ast.Name) and isinstance(s.value, ast.Call) and un(s.value.func) == 'dict' and len(s.value.args) == 1:
        src = self.ex(s.value.args[0], env)
        if src.ty != 'CON':
          U(s, 'dict() of %s' % src.ty)
        env2 = dict(env)
        env2[t.id] = Val({'type': '(c_eq %s)' % src.term, 'fun': '(c_fun %s)' % src.term, 'jac': '(c_jac %s)' % src.term}, 'CDICT')
        return self.block(rest, env2)
      # c['fun'] = lambda ...
      if isinstance(t, ast.Subscript) and isinstance(t.value, ast.Name) and t.value.id in env and env[t.value.id].ty == 'CDICT' and \
         isinstance(t.slice, ast.Constant) and t.slice.value in ('fun', 'jac', 'type'):
        d = dict(env[t.value.id].term)
        key = t.slice.value
        d[key] = self.field(key, s.value, env)
        env2 = dict(env)
        env2[t.value.id] = Val(d, 'CDICT')
        return self.block(rest, env2)
      # tuple unpacking of a cumulative bound
      if isinstance(t, ast.Tuple) and all(isinstance(x, ast.Name) for x in t.elts):
        v = self.ex(s.value, env)
        if v.ty == 'CBOUND' and len(t.elts) == 4:
          env2 = dict(env)
          for nm, (f, ty) in zip([x.id for x in t.elts], [('cb_lo', 'S'), ('cb_hi', 'S'), ('cb_s', 'N'), ('cb_e', 'N')]):
            env2[nm] = Val('(%s %s)' % (f, v.term), ty, v.loops)
          return self.block(rest, env2)
        if v.ty == 'PAIR' and len(t.elts) == 2:
          env2 = dict(env)
          for nm, f in zip([x.id for x in t.elts], ['fst', 'snd']):
            env2[nm] = Val('(%s %s)' % (f, v.term), 'S', v.loops)
          return self.block(rest, env2)
        U(s, 'unpacking of %s' % v.ty)
      if isinstance(t, ast.Name):
        # mask = np.zeros(len(self)); mask[s:e] = 1      /      col_jac = np.zeros(shape[0]); col_jac[labelled_set] = 1
        if rest and isinstance(rest[0], ast.Assign) and len(rest[0].targets) == 1 and isinstance(rest[0].targets[0], ast.Subscript) and \
           un(rest[0].targets[0].value) == t.id and un(rest[0].value) == '1' and un(s.value.func if isinstance(s.value, ast.Call) else s.value) == 'np.zeros':
          sl = rest[0].targets[0].slice
          size = self.ex(s.value.args[0], env)
          if isinstance(sl, ast.Slice) and sl.step is None and sl.lower is not None and sl.upper is not None and size.ty == 'N':
            a, b = self.ex(sl.lower, env), self.ex(sl.upper, env)
            if (a.ty, b.ty) == ('N', 'N'):
              env2 = dict(env)
              env2[t.id] = Val('(range_mask %s %s %s)' % (size.term, a.term, b.term), 'V', a.loops + b.loops)
              return self.block(rest[1:], env2)
          if isinstance(sl, ast.Name):
            ix = self.ex(sl, env)
            if ix.ty == 'NSET' and size.ty == 'N':
              env2 = dict(env)
              env2[t.id] = Val('(indicator %s %s)' % (size.term, ix.term), 'V', ix.loops)
              return self.block(rest[1:], env2)
          U(s, 'mask idiom')
        v = self.ex(s.value, env)
        env2 = dict(env)
        env2[t.id] = v
        return self.block(rest, env2)
      U(s, 'assignment')
    if isinstance(s, ast.AugAssign) and isinstance(s.target, ast.Name) and s.target.id == 'constraints' and isinstance(s.op, ast.Add) and isinstance(s.value, ast.List):
      items = []
      for e in s.value.elts:
        if isinstance(e, ast.Dict):
          items.append(self.mk_con(self.dict_fields(e, env)))
        elif isinstance(e, ast.Name) and e.id in env and env[e.id].ty == 'CDICT':
          items.append(self.mk_con(env[e.id].term))
        else:
          U(e, 'list element')
      return app('[%s]' % '; '.join(items), self.block(rest, env))
    if isinstance(s, ast.If):
      test = self.test(s.test, env)
      # `if 'jac' in constraint: c['jac'] = lambda ..., f=constraint['jac']: ...`   -> option-valued field
      if test[0] == 'hasjac' and not s.orelse and len(s.body) == 1:
        b = s.body[0]
        if isinstance(b, ast.Assign) and isinstance(b.targets[0], ast.Subscript) and isinstance(b.targets[0].value, ast.Name) and \
           b.targets[0].value.id in env and env[b.targets[0].value.id].ty == 'CDICT' and un(b.targets[0].slice) == "'jac'":
          d = dict(env[b.targets[0].value.id].term)
          d['jac'] = self.jac_option(test[1], b.value, env)
          env2 = dict(env)
          env2[b.targets[0].value.id] = Val(d, 'CDICT')
          return self.block(rest, env2)
        U(s, "'jac' in constraint")
      a = self.block(s.body, env)
      b = self.block(s.orelse, env) if s.orelse else '[]'
      return app('(if %s then %s else %s)' % (test[1], a, b), self.block(rest, env))
    if isinstance(s, ast.For) and not s.orelse:
      it = self.ex(s.iter, env)
      env2 = dict(env)
      if it.ty == 'CBOUNDS' and isinstance(s.target, ast.Name):
        b, dflt = s.target.id, '(n0, n0, 0%nat, 0%nat)'
        env2[b] = Val(b, 'CBOUND', (len(self.loops),))
      elif it.ty == 'NRANGE' and isinstance(s.target, ast.Name):
        b, dflt = s.target.id, '0%nat'
        env2[b] = Val(b, 'N', (len(self.loops),))
      elif it.ty == 'NSETS' and isinstance(s.target, ast.Name):
        b, dflt = s.target.id, '[]'
        env2[b] = Val(b, 'NSET', (len(self.loops),))
      elif it.ty == 'CONS' and isinstance(s.target, ast.Name):
        b, dflt = s.target.id, 'null_con'
        env2[b] = Val(b, 'CON', (len(self.loops),))
      elif it.ty == 'KIDPARTS' and isinstance(s.target, ast.Tuple) and len(s.target.elts) == 2 and all(isinstance(x, ast.Name) for x in s.target.elts):
        d, i = s.target.elts[0].id, s.target.elts[1].id
        b, dflt = 'di', '(null_ckid, (0%nat, 0%nat))'
        env2[d] = Val('(fst di)', 'CKID', (len(self.loops),))
        env2[i] = Val('(snd di)', 'NP', (len(self.loops),))
      else:
        U(s, 'loop over %s' % it.ty)
      self.loops.append((b, it.term, dflt))
      body = self.block(s.body, env2)
      self.loops.pop()
      return app('(flat_map (fun %s => %s) %s)' % (b, body, it.term), self.block(rest, env))
    U(s, 'statement')

  # ---- dict literal -> fields
  def dict_fields(self, d, env):
    out = {'jac': 'None'}
    for k, v in zip(d.keys, d.values):
      if not (isinstance(k, ast.Constant) and k.value in ('type', 'fun', 'jac')):
        U(d, 'dict key')
      out[k.value] = self.field(k.value, v, env)
    if 'type' not in out or 'fun' not in out:
      U(d, 'dict without type / fun')
    return out

  def field(self, key, v, env):
    if key == 'type':
      if isinstance(v, ast.Constant) and v.value in ('eq', 'ineq'):
        return 'true' if v.value == 'eq' else 'false'
      t = self.ex(v, env)
      if t.ty == 'ISEQ':
        return t.term
      U(v, 'constraint type')
    if not isinstance(v, ast.Lambda):
      U(v, 'constraint %s is not a lambda' % key)
    t = self.lam(v, env, 'S' if key == 'fun' else 'V')
    return t if key == 'fun' else '(Some %s)' % t

  def jac_option(self, src, v, env):
    """c['jac'] = lambda s, ..., f=constraint['jac']: BODY   under `if 'jac' in constraint`"""
    if not isinstance(v, ast.Lambda):
      U(v, 'jac is not a lambda')
    env2 = dict(env)
    env2['@jacfun'] = Val('jf', 'JACFN')
    body = self.lam(v, env2, 'V', jacsrc=src)
    return '(match c_jac %s with Some jf => Some %s | None => None end)' % (src, body)

  def mk_con(self, f):
    return '(Build_con %s %s %s)' % (f['type'], f['fun'], f['jac'])

  # ---- lambdas: defaults are bound NOW, free variables LATE
  def lam(self, l, env, rty, jacsrc=None):
    a = l.args
    if a.vararg or a.kwarg or a.kwonlyargs or a.posonlyargs:
      U(l, 'lambda arguments')
    names = [x.arg for x in a.args]
    nd = len(a.defaults)
    pos = names[:len(names) - nd]
    if len(pos) != 1:
      U(l, 'lambda with %d positional parameters' % len(pos))
    x = pos[0]
    caps = []
    benv = dict(env)
    # late binding: every name of the enclosing function that depends on a loop is, inside the body, its value in the LAST iteration
    late = {k: v for k, v in env.items() if isinstance(v, Val) and v.loops and k not in names}
    for nm, dv in zip(names[len(pos):], a.defaults):
      if jacsrc is not None and un(dv) == "%s['jac']" % self.src_name(jacsrc, env):
        benv[nm] = Val('jf', 'JACFN')
        continue
      v = self.ex(dv, env)
      if v.ty == 'PYFUN':
        U(dv, 'captured function')
      self.fresh += 1
      cn = '%s_c%d' % (nm, self.fresh)
      caps.append((cn, v.term))
      benv[nm] = Val(cn, v.ty)
    benv[x] = Val(x + '_arg', 'FLOW')
    used_late = sorted({n.id for n in ast.walk(l.body) if isinstance(n, ast.Name) and n.id in late})
    rebind = ''
    if used_late:
      need = sorted({i for nm in used_late for i in late[nm].loops})
      for i in need:
        if i >= len(self.loops):
          U(l, 'late-bound variable of a finished loop')
        b, it, dflt = self.loops[i]
        rebind += 'let %s := last %s %s in ' % (b, it, dflt)
    body = self.ex(l.body, benv)
    if body.ty == 'I' and rty == 'S':
      body = Val(self.int_scalar(body.term), 'S')
    if body.ty != rty:
      U(l, 'lambda body of type %s, expected %s' % (body.ty, rty))
    t = '(fun %s_arg => %s%s)' % (x, rebind, body.term)
    for cn, ct in reversed(caps):
      t = '(let %s := %s in %s)' % (cn, ct, t)
    return t

  def src_name(self, term, env):
    for k, v in env.items():
      if isinstance(v, Val) and v.ty == 'CON' and v.term == term:
        return k
    return '?'

  @staticmethod
  def int_scalar(t):
    return {'0': 'n0', '1': 'n1', '-1': '(- n1)'}.get(t, '(nofZ (%s))' % t)

  # ---- tests
  def test(self, e, env):
    s = un(e)
    if isinstance(e, ast.Compare) and len(e.ops) == 1 and isinstance(e.ops[0], ast.In) and s.startswith("'jac' in "):
      v = self.ex(e.comparators[0], env)
      if v.ty == 'CON':
        return ('hasjac', v.term)
    if s in self.cfg.get('tests', {}):
      return ('bool', self.cfg['tests'][s])
    if isinstance(e, ast.Compare) and len(e.ops) == 1 and isinstance(e.ops[0], ast.Eq):
      a, b = self.ex(e.left, env), self.ex(e.comparators[0], env)
      if (a.ty, b.ty) == ('S', 'S'):
        return ('bool', '(%s =? %s)' % (a.term, b.term))
    U(e, 'test %s' % s)

  # ---- expressions
  def ex(self, e, env):
    s = un(e)
    if s in self.cfg.get('atoms', {}):
      t, ty = self.cfg['atoms'][s]
      return Val(t, ty)
    if isinstance(e, ast.Constant) and isinstance(e.value, int) and not isinstance(e.value, bool):
      return Val(str(e.value), 'I')
    if isinstance(e, ast.UnaryOp) and isinstance(e.op, ast.USub):
      v = self.ex(e.operand, env)
      if v.ty == 'I':
        return Val(str(-int(v.term)), 'I')
      if v.ty == 'S':
        return Val('(- %s)' % v.term, 'S', v.loops)
      U(e, 'negation of %s' % v.ty)
    if isinstance(e, ast.Name):
      if e.id in env and isinstance(env[e.id], Val):
        return env[e.id]
      U(e, 'name %s' % e.id)
    if isinstance(e, ast.Call):
      return self.call(e, env)
    if isinstance(e, ast.Subscript):
      return self.subscript(e, env)
    if isinstance(e, ast.BinOp):
      a, b = self.ex(e.left, env), self.ex(e.right, env)
      lo = a.loops + b.loops
      op = type(e.op)
      if a.ty == 'I' and b.ty in ('S',):
        a = Val(self.int_scalar(a.term), 'S')
      if b.ty == 'I' and a.ty in ('S',):
        b = Val(self.int_scalar(b.term), 'S')
      if (a.ty, b.ty) == ('S', 'S') and op in (ast.Add, ast.Sub, ast.Mult, ast.Div):
        return Val('(%s %s %s)' % (a.term, {ast.Add: '+', ast.Sub: '-', ast.Mult: '*', ast.Div: '/'}[op], b.term), 'S', lo)
      if (a.ty, b.ty) == ('N', 'N') and op is ast.Add:
        return Val('(%s + %s)%%nat' % (a.term, b.term), 'N', lo)
      if (a.ty, b.ty) == ('N', 'I') and op in (ast.Add, ast.Sub):
        return Val('(%s %s %s)%%nat' % (a.term, '+' if op is ast.Add else '-', b.term), 'N', lo)
      if (a.ty, b.ty) == ('S', 'NEXP') and op is ast.Pow:
        return Val('(npown %s %s)' % (a.term, b.term), 'S', lo)
      if (a.ty, b.ty) == ('S', 'N') and op is ast.Pow:
        return Val('(npown %s %s)' % (a.term, b.term), 'S', lo)
      if (a.ty, b.ty) == ('I', 'V') and op is ast.Mult and a.term == '-1':
        return Val('(vopp %s)' % b.term, 'V', lo)
      if (a.ty, b.ty) == ('V', 'V') and op is ast.Mult:
        return Val('(vmul %s %s)' % (a.term, b.term), 'V', lo)
      if (a.ty, b.ty) == ('S', 'V') and op is ast.Mult:
        return Val('(vscale %s %s)' % (a.term, b.term), 'V', lo)
      U(e, 'operator on %s, %s' % (a.ty, b.ty))
    if isinstance(e, ast.Attribute):
      v = self.ex(e.value, env)
      if v.ty == 'CKID' and e.attr == 'constraints':
        return Val('(ck_cons %s)' % v.term, 'CONS', v.loops)
    U(e, 'expression %s' % s)

  def subscript(self, e, env):
    s = un(e)
    # constraint['type'] / ['fun'] / ['jac']
    if isinstance(e.slice, ast.Constant) and e.slice.value in ('type', 'fun', 'jac'):
      v = self.ex(e.value, env)
      if v.ty == 'CON':
        return Val('(c_%s %s)' % ({'type': 'eq', 'fun': 'fun', 'jac': 'jac'}[e.slice.value], v.term),
                   {'type': 'ISEQ', 'fun': 'CFUN', 'jac': 'CJACOPT'}[e.slice.value], v.loops)
    v = self.ex(e.value, env)
    if v.ty == 'NP' and isinstance(e.slice, ast.Constant) and e.slice.value in (0, 1):
      return Val('(%s %s)' % ('fst' if e.slice.value == 0 else 'snd', v.term), 'N', v.loops)
    if v.ty == 'SHAPE' and isinstance(e.slice, ast.Constant) and e.slice.value in (0, 1):
      return Val('(%s %s)' % ('fst' if e.slice.value == 0 else 'snd', v.term), 'N', v.loops)
    if v.ty == 'CUBE':
      i = self.ex(e.slice, env)
      if i.ty == 'N':
        return Val('(nth %s %s (n0, n0))' % (i.term, v.term), 'PAIR', v.loops + i.loops)
    if v.ty == 'PAIR' and isinstance(e.slice, ast.Constant) and e.slice.value in (0, 1):
      return Val('(%s %s)' % ('fst' if e.slice.value == 0 else 'snd', v.term), 'S', v.loops)
    if v.ty == 'RATIOS' and isinstance(e.slice, ast.Constant) and e.slice.value in (0, 1):
      return Val('(%s %s)' % ('fst' if e.slice.value == 0 else 'snd', v.term), 'S', v.loops)
    if v.ty == 'V':
      i = self.ex(e.slice, env)
      if i.ty == 'N':
        return Val('(nth %s %s n0)' % (i.term, v.term), 'S', v.loops + i.loops)
    if v.ty == 'M' and not isinstance(e.slice, (ast.Tuple, ast.Slice)):
      i = self.ex(e.slice, env)
      if i.ty == 'N':
        return Val('(nth %s %s [])' % (i.term, v.term), 'V', v.loops + i.loops)
    # the reshaped flow: rows block, a column, one entry
    if v.ty == 'FLOWM' and isinstance(e.slice, ast.Tuple) and len(e.slice.elts) == 2:
      a, b = e.slice.elts
      full = lambda x: isinstance(x, ast.Slice) and x.lower is None and x.upper is None and x.step is None
      sh = v.term[1]
      if full(b) and isinstance(a, ast.Slice) and a.step is None and a.lower is not None and a.upper is not None:
        lo = self.ex(a.lower, env)
        up = a.upper
        if lo.ty == 'N' and isinstance(up, ast.BinOp) and isinstance(up.op, ast.Add) and ast.dump(up.left) == ast.dump(a.lower):
          r = self.ex(up.right, env)
          if r.ty == 'N':
            return Val('(sub_flat (fst %s) (snd %s) %s %s %s)' % (sh, sh, lo.term, r.term, v.term[0]), 'FLOW', lo.loops + r.loops)
      if full(a):
        i = self.ex(b, env)
        if i.ty == 'N':
          return Val(('col', sh, i.term, v.term[0]), 'FLOWCOL', i.loops)
      ia, ib = self.ex(a, env), self.ex(b, env)
      if ia.ty == 'I' and ib.ty == 'N':
        return Val('(nth %s (nth %s (reshape (fst %s) (snd %s) %s) []) n0)' % (ib.term, ia.term, sh, sh, v.term[0]), 'S', ib.loops)
    U(e, 'subscript %s of %s' % (s, v.ty))

  def call(self, e, env):
    f = e.func
    s = un(e)
    kws = {k.arg: k.value for k in e.keywords}
    if isinstance(f, ast.Name) and f.id == 'range' and len(e.args) == 2 and un(e.args[0]) == '0' and not kws:
      n = self.ex(e.args[1], env)
      if n.ty == 'N':
        return Val('(seq 0 %s)' % n.term, 'NRANGE', n.loops)
    if isinstance(f, ast.Name) and f.id == 'zip' and un(e) == 'zip(self.devices, self.partition)' and 'zip(self.devices, self.partition)' in self.cfg.get('atoms', {}):
      t, ty = self.cfg['atoms']['zip(self.devices, self.partition)']
      return Val(t, ty)
    if isinstance(f, ast.Name) and f.id == 'len' and un(e) in self.cfg.get('atoms', {}):
      t, ty = self.cfg['atoms'][un(e)]
      return Val(t, ty)
    # a local def, inlined (SDevice.soc)
    if isinstance(f, ast.Name) and f.id in env and env[f.id].ty == 'PYFUN' and not kws:
      _, fd, fenv = env[f.id].term
      ps = [a.arg for a in fd.args.args]
      if len(ps) != len(e.args):
        U(e, 'arity')
      benv = dict(fenv)
      loops = ()
      for p, a in zip(ps, e.args):
        benv[p] = self.ex(a, env)
        loops += benv[p].loops
      body = [x for x in fd.body if not (isinstance(x, ast.Expr) and isinstance(x.value, ast.Constant))]
      for st in body[:-1]:
        if isinstance(st, ast.Assign) and len(st.targets) == 1 and isinstance(st.targets[0], ast.Name):
          benv[st.targets[0].id] = self.ex(st.value, benv)
        else:
          U(st, 'statement in a local function')
      if not isinstance(body[-1], ast.Return):
        U(fd, 'local function')
      r = self.ex(body[-1].value, benv)
      return Val(r.term, r.ty, r.loops + loops)
    # a captured constraint function / Jacobian applied to the child's block
    if isinstance(f, ast.Name) and f.id in env and env[f.id].ty in ('CFUN', 'JACFN') and len(e.args) == 1 and not kws:
      a = self.ex(e.args[0], env)
      if a.ty in ('FLOW',):
        return Val('(%s %s)' % (env[f.id].term, a.term), 'S' if env[f.id].ty == 'CFUN' else 'V', a.loops)
      U(e, 'constraint function applied to %s' % a.ty)
    if isinstance(f, ast.Attribute):
      # X.reshape(shape) of the flow; X.reshape(flat_shape) of a Jacobian; X.reshape(len(self)) of a flow
      if f.attr == 'reshape' and len(e.args) == 1 and not kws:
        v = self.ex(f.value, env)
        a = self.ex(e.args[0], env) if un(e.args[0]) not in ('-1',) else Val('-1', 'I')
        if v.ty == 'FLOW' and a.ty == 'SHAPE':
          return Val((v.term, a.term), 'FLOWM', a.loops)
        if v.ty in ('V', 'VJAC') and a.ty in ('FLAT', 'I'):
          return Val(v.term, 'V', v.loops)
        if v.ty == 'FLOW' and a.ty == 'N':
          return Val(v.term, 'V', v.loops)
        U(e, 'reshape of %s to %s' % (v.ty, a.ty))
      if f.attr == 'dot' and len(e.args) == 1 and not kws:
        v, a = self.ex(f.value, env), self.ex(e.args[0], env)
        if v.ty in ('FLOW', 'V') and a.ty == 'V':
          return Val('(dot %s %s)' % (v.term, a.term), 'S', v.loops + a.loops)
        if v.ty == 'FLOWCOL' and a.ty == 'ONES' :
          _, sh, i, x = v.term
          return Val('(slot_total (fst %s) (snd %s) %s %s)' % (sh, sh, i, x), 'S', v.loops)
        U(e, 'dot of %s, %s' % (v.ty, a.ty))
      if f.attr == 'copy' and not e.args:
        v = self.ex(f.value, env)
        if v.ty == 'V':
          return v
      if f.attr == 'sum' and not e.args:
        v = self.ex(f.value, env)
        if v.ty == 'FLOWM' and {k: un(x) for k, x in kws.items()} == {'axis': '0'}:
          x, sh = v.term
          return Val('(colsum (snd %s) (reshape (fst %s) (snd %s) %s))' % (sh, sh, sh, x), 'FLOW', v.loops)
        if v.ty == 'V' and not kws:
          return Val('(vsum %s)' % v.term, 'S', v.loops)
        if v.ty == 'COLMASKED' and not kws:
          return Val(v.term, 'S', v.loops)
        U(e, 'sum of %s' % v.ty)
      if un(f) == 'np.ones' and len(e.args) == 1 and not kws:
        a = self.ex(e.args[0], env)
        if a.ty == 'N':
          return Val('(ones %s)' % a.term, 'ONES', a.loops)
      if un(f) == 'np.array' and len(e.args) == 1 and not kws:
        a = e.args[0]
        if isinstance(a, ast.List):
          vs = [self.ex(x, env) for x in a.elts]
          if all(v.ty == 'S' for v in vs):
            return Val('[%s]' % '; '.join(v.term for v in vs), 'V', sum((v.loops for v in vs), ()))
        v = self.ex(a, env)
        if v.ty in ('V', 'VJAC'):
          return v
        U(e, 'np.array')
      if un(f) == 'np.sign' and len(e.args) == 1:
        v = self.ex(e.args[0], env)
        if v.ty in ('FLOW', 'V'):
          return Val(v.term, 'SIGNOF', v.loops)
      if un(f) == 'np.tile' and len(e.args) == 2 and not kws:
        v, k = self.ex(e.args[0], env), self.ex(e.args[1], env)
        if v.ty == 'V' and k.ty == 'N':
          return Val('(List.concat (repeat %s %s))' % (v.term, k.term), 'V', v.loops + k.loops)
      # zmm(s.reshape(shape), range(o, o+r), fn=f)   /   zmm(s.reshape(shape), i, axis=1, fn=lambda r: VEC)
      if un(f) == 'zmm' or (isinstance(f, ast.Name) and f.id == 'zmm'):
        pass
    if isinstance(f, ast.Name) and f.id == 'zmm' and len(e.args) == 2 and 'fn' in kws:
      m = self.ex(e.args[0], env)
      if m.ty != 'FLOWM':
        U(e, 'zmm of %s' % m.ty)
      x, sh = m.term
      keep = e.args[1]
      if set(kws) == {'fn'} and isinstance(keep, ast.Call) and un(keep.func) == 'range' and len(keep.args) == 2:
        lo = self.ex(keep.args[0], env)
        up = keep.args[1]
        fn = self.ex(kws['fn'], env)
        if lo.ty == 'N' and isinstance(up, ast.BinOp) and isinstance(up.op, ast.Add) and ast.dump(up.left) == ast.dump(keep.args[0]) and fn.ty == 'JACFN':
          r = self.ex(up.right, env)
          return Val('(zpad (fst %s) (snd %s) %s %s (%s (sub_flat (fst %s) (snd %s) %s %s %s)))' % (sh, sh, lo.term, r.term, fn.term, sh, sh, lo.term, r.term, x),
                     'VJAC', lo.loops + r.loops)
      if set(kws) == {'fn', 'axis'} and un(kws['axis']) == '1' and isinstance(kws['fn'], ast.Lambda) and len(kws['fn'].args.args) == 1:
        i = self.ex(keep, env)
        v = self.ex(kws['fn'].body, env)
        if v.ty == 'ONES':
          v = Val(v.term, 'V', v.loops)
        if i.ty == 'N' and v.ty == 'V':
          return Val('(col_jac (fst %s) (snd %s) %s %s)' % (sh, sh, i.term, v.term), 'VJAC', i.loops + v.loops)
      U(e, 'zmm')
    U(e, 'call %s' % s)

  # products that need a look at both sides before typing
  def ex_top(self, e, env):
    return self.ex(e, env)


# extra binary forms handled by patching ex for the few idioms that mix the special types
_orig_ex = CTx.ex


def _ex(self, e, env):
  if isinstance(e, ast.BinOp):
    op = type(e.op)
    try:
      a = self.ex(e.left, env)
      b = self.ex(e.right, env)
    except Unsupported:
      a = b = None
    if a is not None and b is not None and op is ast.Pow:
      # e ** np.sign(r)
      if a.ty == 'S' and b.ty == 'SIGNOF':
        return Val('(map (effof %s) %s)' % (a.term, b.term), 'V', a.loops + b.loops)
    if a is not None and b is not None:
      if op is ast.Mult and a.ty == 'I' and a.term == '-1' and b.ty == 'ONES':
        return Val('(vscale (- n1) %s)' % b.term, 'V', b.loops)
      if op is ast.Mult and a.ty == 'V' and b.ty == 'FLOW':
        return Val('(vmul %s %s)' % (a.term, b.term), 'V', a.loops + b.loops)
      if op is ast.Mult and a.ty == 'FLOWCOL' and b.ty == 'V':
        _, sh, i, x = a.term
        return Val('(vmul (col %s (reshape (fst %s) (snd %s) %s)) %s)' % (i, sh, sh, x, b.term), 'V', a.loops + b.loops)
      if op is ast.Mult and a.ty == 'I' and a.term == '-1' and b.ty == 'V':
        return Val('(vopp %s)' % b.term, 'V', b.loops)
  return _orig_ex(self, e, env)


CTx.ex = _ex

# ---------------------------------------------------------------------------------------------------
# per class configuration: parameters of the generated definition, atoms (source text -> Coq term, type), initial lists
# ---------------------------------------------------------------------------------------------------
TARGETS = [
  ('Device', 'device.py', '(n : nat) (cbounds : list (cbound A))',
   {'atoms': {'self.cbounds': ('cbounds', 'CBOUNDS'), 'len(self)': ('n', 'N')},
    'tests': {'self.cbounds': '(negb (match cbounds with [] => true | _ => false end))'}},
   'cb_cons n cbounds'),
  ('TwoRatioMFDeviceSet', 'tworatiomfdeviceset.py', '(base : list (con A)) (shape : nat * nat) (ratios : A * A) (is_eq : bool)',
   {'atoms': {'self.shape': ('shape', 'SHAPE'), 'shape[0] * shape[1]': ('tt', 'FLAT'), 'len(self)': ('(snd shape)', 'N'),
              'self.ratios': ('ratios', 'RATIOS'), 'self.constraint_type': ('is_eq', 'ISEQ')},
    'inits': {'super().constraints': 'base'}},
   'base ++ ratio_cons (fst shape) (snd shape) ratios is_eq'),
  ('SubBalancedDeviceSet', 'subbalanceddeviceset.py', '(base : list (con A)) (shape : nat * nat) (sets : list (list nat)) (is_eq : bool) (sign : A)',
   {'atoms': {'self.shape': ('shape', 'SHAPE'), 'len(self)': ('(snd shape)', 'N'), 'self.sign': ('sign', 'S'),
              'self.constraint_type': ('is_eq', 'ISEQ'),
              'self.labelled_sets + ([self.unlabelled_set] if self.apply_to_remaining else [])': ('sets', 'NSETS')},
    'inits': {'super().constraints': 'base'}},
   'base ++ label_cons (fst shape) (snd shape) sets is_eq sign'),
  ('DeviceSet', 'deviceset.py', '(kids : list (ckid A)) (part : list (nat * nat)) (shape : nat * nat) (sbounds : option (list (A * A)))',
   {'atoms': {'self.shape': ('shape', 'SHAPE'), 'shape[0] * shape[1]': ('tt', 'FLAT'), 'len(self)': ('(snd shape)', 'N'),
              'zip(self.devices, self.partition)': ('(combine kids part)', 'KIDPARTS'), 'self.sbounds': ('(sb_table sbounds)', 'CUBE')},
    'tests': {'self.sbounds is not None': '(match sbounds with Some _ => true | None => false end)'}},
   'set_cons kids part shape sbounds'),
  ('MFDeviceSet', 'mfdeviceset.py', '(base : list (con A)) (wrapped : list (con A)) (shape : nat * nat)',
   {'atoms': {'self.shape': ('shape', 'SHAPE'), 'shape[0] * shape[1]': ('tt', 'FLAT'), 'self._device.constraints': ('wrapped', 'CONS')},
    'inits': {'super().constraints': 'base'}},
   'base ++ map (mf_wrap (fst shape) (snd shape)) wrapped'),
  ('SDevice', 'sdevice.py', '(base : list (con A)) (q : sparams A) (n : nat) (bnd : list (A * A))',
   {'atoms': {'len(self)': ('n', 'N'), 'self.capacity': ('(sp_capacity q)', 'S'), 'self.reserve': ('(sp_reserve q)', 'S'),
              'self.base()': ('(sdev_base q)', 'S'), 'self.efficiency': ('(sp_eff q)', 'S'), 'self.sustainment': ('(sp_sus q)', 'S'),
              'self._sustainment_matrix': ('(sust_matrix (sp_sus q) n)', 'M'),
              'self.rate_clip[0]': ('(clip_val (sp_clip_d q))', 'S'), 'self.rate_clip[1]': ('(clip_val (sp_clip_c q))', 'S'),
              'self.lbounds': ('(map fst bnd)', 'V'), 'self.hbounds': ('(map snd bnd)', 'V'), 'len(self) - 1': ('(n - 1)%nat', 'N')},
    'tests': {'self.rate_clip[0]': '(clip_set (sp_clip_d q))', 'self.rate_clip[1]': '(clip_set (sp_clip_c q))'},
    'inits': {'Device.constraints.fget(self)': 'base'}},
   'base ++ sdev_cons q n bnd'),
]


def gen_constraints(repo):
  out = ['(* GENERATED by translator/constraints_tx.py from the `constraints` properties of device.py, sdevice.py, deviceset.py,',
         '   subbalanceddeviceset.py, mfdeviceset.py, tworatiomfdeviceset.py -- do not edit. *)',
         'From Coq Require Import ZArith List Bool Arith.', 'From DK Require Import Num Vec.', 'From DK.Model Require Import Leaf Fn Dev Tree ConOps.',
         'Import ListNotations.', 'Section GenConstraints.', 'Context {A : Type} `{Num A}.', 'Local Open Scope num_scope.', '']
  translated, untranslated = [], []
  for (cls, fname, decl, cfg, fallback) in TARGETS:
    path = os.path.join(repo, 'device_kit', fname)
    head = 'Definition %s_constraints %s : list (con A) :=' % (cls, decl)
    try:
      try:
        tree = ast.parse(open(path).read(), path)
        tx = CTx(tree, cls, cfg)
      except (SyntaxError, OSError, StopIteration):
        raise Unsupported('?:Module:cannot read %s' % fname)
      body = tx.translate()
      translated.append('%s_constraints' % cls)
      out.append('(* %s: %s.constraints *)' % (fname, cls))
    except Unsupported as e:
      body = fallback
      untranslated.append('%s_constraints' % cls)
      out.append('(* %s: %s.constraints NOT TRANSLATED (%s): alias of the hand-written model, tie falls back to the correspondence *)' % (
          fname, cls, str(e).replace('*)', '* )')))
    out.append(head + '\n  ' + body + '.\n')
  out.append('End GenConstraints.')
  out.append('From Coq Require Import String.')
  out.append('Definition constraints_translated : list String.string := [%s]%%string.' % '; '.join('"%s"' % x for x in translated))
  out.append('Definition constraints_untranslated : list String.string := [%s]%%string.' % '; '.join('"%s"' % x for x in untranslated))
  return '\n'.join(out) + '\n'


if __name__ == '__main__':
  import sys
  print(gen_constraints(sys.argv[1] if len(sys.argv) > 1 else '/repo'))
