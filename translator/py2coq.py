#!/usr/bin/env python3
"""Fail-closed translator from a whitelisted subset of the Python in /repo/device_kit to Gallina.

  py2coq.py kernels    <repo> <out.v>   scalar cost kernels (ABCCost, HLQuadraticCost static methods)
  py2coq.py validators <repo> <out.v>   parameter validators (setter guard blocks)
  py2coq.py signatures <repo> <out.v>   constructor parameters / dumped keys per class
  py2coq.py classes    <repo> <out.v>   class-level cost / deriv / hess of the simple atomic devices (graceful fallback per method)
  py2coq.py thermal    <repo> <out.v>   tdevice.py: cost / costv / deriv / r2t / _make_t_base (graceful fallback per method)
  py2coq.py deviceset  <repo> <out.v>   deviceset.py: one set level over abstract children (graceful fallback per method)
  py2coq.py functions  <repo> <out.v>   functions.py combinators over abstract operands (graceful fallback per method)
  py2coq.py mfdeviceset <repo> <out.v>  mfdeviceset.py: cost / deriv / hess / project / constructor over an abstract wrapped device
  py2coq.py storage    <repo> <out.v>   sdevice.py: deep_damage_at_deriv / charge_costs_deriv / deriv (graceful fallback per method)
  py2coq.py constraints <repo> <out.v>  the `constraints` properties (closure lists) of device / sdevice / deviceset / subbalanced / mf / tworatio
  py2coq.py solve      <repo> <out.v>   solve.py: solve() and step() with the optimiser calls as parameters
  py2coq.py utils      <repo> <out.v>   utils.py: base_soc / soc / sustainment_matrix / power_matrix
  py2coq.py basedevice <repo> <out.v>   basedevice.py: leaf_devices / map / mapDevices / get / find
  py2coq.py loaders    <repo> <out.v>   loaders/builder_loader.py run_to_array / run_to_cbounds_array, utils.py care2bounds / on2bounds
  py2coq.py projection <repo> <out.v>   projection/projection.py: every region method incl. the Dykstra loop (graceful fallback per method)

Anything outside the whitelist raises Unsupported naming the file, line and node: the caller treats that
as a broken obligation ("translator:<file>:<line>:<node>").  Output is deterministic text; the caller only
rewrites the target when the text changed, so `make` rebuilds exactly when the source did.
"""
import ast
import sys
import os
from fractions import Fraction


class Unsupported(Exception):
  pass


def fail(fname, node, why):
  raise Unsupported('translator:%s:%s:%s:%s' % (os.path.basename(fname), getattr(node, 'lineno', '?'), type(node).__name__, why))


def find_class(tree, name):
  for n in tree.body:
    if isinstance(n, ast.ClassDef) and n.name == name:
      return n
  return None


def find_method(cls, name, setter=False):
  for n in cls.body:
    if isinstance(n, ast.FunctionDef) and n.name == name:
      is_setter = any(isinstance(d, ast.Attribute) and d.attr == 'setter' for d in n.decorator_list)
      if is_setter == setter:
        return n
  return None


def num_const(fname, node, v):
  if isinstance(v, bool):
    fail(fname, node, 'bool constant')
  if isinstance(v, int):
    return '(nofZ (%d))' % v if v < 0 else '(nofZ %d)' % v
  if isinstance(v, float):
    f = Fraction(v)   # exact value of the double
    if f.denominator == 1:
      return '(nofZ (%d))' % f.numerator
    return '(nofZ (%d) / nofZ %d)' % (f.numerator, f.denominator)
  fail(fname, node, 'constant %r' % (v,))


# ---------------------------------------------------------------------------------------------------
# Kernels
# ---------------------------------------------------------------------------------------------------
class KernelTx:
  """Translate a static method made of `if test: return e`, `x = e`, `return e` into one Gallina
  expression, and produce its *_defined predicate (all denominators non-zero, no 0 ** negative)."""

  def __init__(self, fname, clsname, prefix, siblings):
    self.fname, self.clsname, self.prefix, self.siblings = fname, clsname, prefix, siblings

  # --- expressions: returns (term, defined_term)
  def expr(self, e, env):
    f = self.fname
    if isinstance(e, ast.Constant):
      return num_const(f, e, e.value), 'true'
    if isinstance(e, ast.Name):
      if e.id not in env:
        fail(f, e, 'free name %s' % e.id)
      return e.id, 'true'
    if isinstance(e, ast.UnaryOp):
      if isinstance(e.op, ast.USub):
        t, d = self.expr(e.operand, env)
        return '(- %s)' % t, d
      if isinstance(e.op, ast.UAdd):
        return self.expr(e.operand, env)
      fail(f, e, 'unary op')
    if isinstance(e, ast.BinOp):
      a, da = self.expr(e.left, env)
      b, db = self.expr(e.right, env)
      d = conj([da, db])
      if isinstance(e.op, ast.Add):
        return '(%s + %s)' % (a, b), d
      if isinstance(e.op, ast.Sub):
        return '(%s - %s)' % (a, b), d
      if isinstance(e.op, ast.Mult):
        return '(%s * %s)' % (a, b), d
      if isinstance(e.op, ast.Div):
        return '(%s / %s)' % (a, b), conj([d, '(negb (%s =? n0))' % b])
      if isinstance(e.op, ast.Pow):
        return '(npw %s %s)' % (a, b), conj([d, '((negb (%s =? n0)) || (n0 <=? %s))' % (a, b)])
      fail(f, e, 'binary op %s' % type(e.op).__name__)
    if isinstance(e, ast.IfExp):
      c, dc = self.test(e.test, env)
      a, da = self.expr(e.body, env)
      b, db = self.expr(e.orelse, env)
      return '(if %s then %s else %s)' % (c, a, b), conj([dc, '(if %s then %s else %s)' % (c, da, db)])
    if isinstance(e, ast.Call):
      # sibling static method: ClassName.m(args)
      fn = e.func
      if isinstance(fn, ast.Attribute) and isinstance(fn.value, ast.Name) and fn.value.id == self.clsname and fn.attr in self.siblings:
        if e.keywords:
          fail(f, e, 'keyword args')
        args = [self.expr(a, env) for a in e.args]
        name = self.prefix + fn.attr.lstrip('_')
        at = ' '.join(a for a, _ in args)
        return '(%s %s)' % (name, at), conj([d for _, d in args] + ['(%s_defined %s)' % (name, at)])
      # np.poly1d([c...])(u)  -> Horner
      if isinstance(fn, ast.Call) and isinstance(fn.func, ast.Attribute) and isinstance(fn.func.value, ast.Name) \
         and fn.func.value.id == 'np' and fn.func.attr == 'poly1d' and len(fn.args) == 1 and isinstance(fn.args[0], ast.List) \
         and len(e.args) == 1 and not e.keywords and not fn.keywords:
        cs = [self.expr(c, env) for c in fn.args[0].elts]
        u, du = self.expr(e.args[0], env)
        return '(horner [%s] %s)' % ('; '.join(c for c, _ in cs), u), conj([d for _, d in cs] + [du])
      fail(f, e, 'call')
    fail(f, e, 'expression')

  def test(self, t, env):
    f = self.fname
    if isinstance(t, ast.Compare) and len(t.ops) == 1:
      a, da = self.expr(t.left, env)
      b, db = self.expr(t.comparators[0], env)
      op = t.ops[0]
      m = {ast.Eq: '(%s =? %s)', ast.NotEq: '(negb (%s =? %s))', ast.LtE: '(%s <=? %s)', ast.Lt: '(%s <? %s)'}
      if type(op) in m:
        return m[type(op)] % (a, b), conj([da, db])
      if isinstance(op, ast.GtE):
        return '(%s <=? %s)' % (b, a), conj([da, db])
      if isinstance(op, ast.Gt):
        return '(%s <? %s)' % (b, a), conj([da, db])
    fail(f, t, 'test')

  def stmts(self, body, env):
    f = self.fname
    if not body:
      fail(f, ast.Pass(), 'function falls off the end')
    s, rest = body[0], body[1:]
    if isinstance(s, ast.Expr) and isinstance(s.value, ast.Constant) and isinstance(s.value.value, str):
      return self.stmts(rest, env)
    if isinstance(s, ast.Return):
      if s.value is None:
        fail(f, s, 'bare return')
      return self.expr(s.value, env)
    if isinstance(s, ast.Assign) and len(s.targets) == 1 and isinstance(s.targets[0], ast.Name):
      v, dv = self.expr(s.value, env)
      name = s.targets[0].id
      t, d = self.stmts(rest, env | {name})
      return '(let %s := %s in %s)' % (name, v, t), conj([dv, '(let %s := %s in %s)' % (name, v, d)])
    if isinstance(s, ast.If):
      c, dc = self.test(s.test, env)
      returns = lambda b: bool(b) and isinstance(b[-1], ast.Return)
      # a branch that does not return continues with the statements after the `if` (locals it binds stay in scope there)
      t1, d1 = self.stmts(list(s.body) + ([] if returns(s.body) else rest), env)
      t2, d2 = self.stmts((list(s.orelse) + ([] if returns(s.orelse) else rest)) if s.orelse else rest, env)
      return '(if %s then %s else %s)' % (c, t1, t2), conj([dc, '(if %s then %s else %s)' % (c, d1, d2)])
    fail(f, s, 'statement')

  def method(self, m):
    f = self.fname
    if not any(isinstance(d, ast.Name) and d.id == 'staticmethod' for d in m.decorator_list):
      fail(f, m, 'not a staticmethod')
    a = m.args
    if a.vararg or a.kwarg or a.kwonlyargs or a.defaults or a.posonlyargs:
      fail(f, m, 'argument list')
    params = [x.arg for x in a.args]
    t, d = self.stmts(m.body, set(params))
    name = self.prefix + m.name.lstrip('_')
    ps = ' '.join(params)
    return ('Definition %s (%s : A) : A :=\n  %s.\n' % (name, ps, t) +
            'Definition %s_defined (%s : A) : bool :=\n  %s.\n' % (name, ps, d))


def conj(ds):
  ds = [d for d in ds if d != 'true']
  if not ds:
    return 'true'
  if len(ds) == 1:
    return ds[0]
  return '(' + ' && '.join(ds) + ')'


KERNELS = [
  ('ABCCost', 'abc_', ['s', 'q', '_cost', '_deriv', '_hess']),
  ('HLQuadraticCost', 'hl_', ['_cost', '_deriv', '_hess']),
]


def gen_kernels(repo):
  fname = os.path.join(repo, 'device_kit', 'functions.py')
  tree = ast.parse(open(fname).read(), fname)
  out = ['(* GENERATED by translator/py2coq.py kernels from device_kit/functions.py -- do not edit. *)',
         'From Coq Require Import ZArith List Bool.',
         'From DK Require Import Num Vec.',
         'Import ListNotations.',
         'Section Kernels.',
         'Context {A : Type} `{Num A}.',
         'Local Open Scope num_scope.',
         'Definition horner (cs : list A) (u : A) : A := fold_left (fun acc c => acc * u + c) cs n0.',
         '']
  for clsname, prefix, methods in KERNELS:
    cls = find_class(tree, clsname)
    if cls is None:
      raise Unsupported('translator:functions.py:?:ClassDef:class %s not found' % clsname)
    tx = KernelTx(fname, clsname, prefix, set(methods))
    for mname in methods:
      m = find_method(cls, mname)
      if m is None:
        raise Unsupported('translator:functions.py:%s:FunctionDef:method %s.%s not found' % (cls.lineno, clsname, mname))
      out.append(tx.method(m))
  out.append('End Kernels.')
  return '\n'.join(out) + '\n'


def write_if_changed(path, text):
  try:
    if open(path).read() == text:
      return False
  except FileNotFoundError:
    pass
  os.makedirs(os.path.dirname(path), exist_ok=True)
  with open(path, 'w') as f:
    f.write(text)
  return True


def main(argv):
  if len(argv) != 4:
    print(__doc__)
    return 2
  what, repo, out = argv[1:]
  try:
    if what == 'kernels':
      text = gen_kernels(repo)
    elif what == 'validators':
      from validators_tx import gen_validators
      text = gen_validators(repo)
    elif what == 'signatures':
      from signatures_tx import gen_signatures
      text = gen_signatures(repo)
    elif what == 'classes':
      from classes_tx import gen_classes
      text = gen_classes(repo)
    elif what == 'thermal':
      from tdevice_tx import gen_thermal
      text = gen_thermal(repo)
    elif what == 'deviceset':
      from deviceset_tx import gen_deviceset
      text = gen_deviceset(repo)
    elif what == 'functions':
      from functions_tx import gen_functions
      text = gen_functions(repo)
    elif what == 'mfdeviceset':
      from mfdeviceset_tx import gen_mfdeviceset
      text = gen_mfdeviceset(repo)
    elif what == 'storage':
      from sdevice_tx import gen_storage
      text = gen_storage(repo)
    elif what == 'constraints':
      from constraints_tx import gen_constraints
      text = gen_constraints(repo)
    elif what == 'solve':
      from solve_tx import gen_solve
      text = gen_solve(repo)
    elif what == 'utils':
      from utils_tx import gen_utils
      text = gen_utils(repo)
    elif what == 'basedevice':
      from basedevice_tx import gen_basedevice
      text = gen_basedevice(repo)
    elif what == 'loaders':
      from loaders_tx import gen_loaders
      text = gen_loaders(repo)
    elif what == 'projection':
      from stmt_tx import gen_projection
      text = gen_projection(repo)
    else:
      print(__doc__)
      return 2
  except Unsupported as e:
    print(str(e))
    return 3
  except SyntaxError as e:
    print('translator:%s:%s:SyntaxError:%s' % (os.path.basename(e.filename or '?'), e.lineno, e.msg))
    return 3
  changed = write_if_changed(out, text)
  print('%s %s' % ('rewrote' if changed else 'unchanged', out))
  return 0


if __name__ == '__main__':
  sys.path.insert(0, os.path.dirname(os.path.abspath(__file__)))
  sys.exit(main(sys.argv))
