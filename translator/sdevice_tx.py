"""SDevice marginal cost (device_kit/sdevice.py): deep_damage_at_deriv / charge_costs_deriv / deriv  ->  coq/Gen/Storage.v.

Built on the class-level translator (classes_tx.Tx, whose SDevice cost side is in Gen/Classes.v) plus what the derivative needs:
the accumulation loop `for i in range(0, len(c)): d += <vector expression in i>`, np.hstack shifts, rows of the stashed sustainment
matrix (checked: assigned from sustainment_matrix(self.sustainment, len(self)) in __init__ AND refreshed by the sustainment setter),
`self.efficiency**np.sign(r)` (hand semantics: Model/Leaf.v effof).  Graceful per method.
"""
import ast
import os
import classes_tx as cx
from classes_tx import Unsupported, U

ARGS = cx.CLASSES['SDevice']['args']
NAMES = 'n ' + ' '.join(ARGS)
DECL = '(n : nat) ' + ' '.join('(%s : A)' % a for a in ARGS)
Q = '(Build_sparams c1 c2 c3 capacity damage_depth start n0 efficiency sustainment None None)'
TARGETS = [
  ('deep_damage_at_deriv', ['r:V'], 'V', 'sdev_ddamage %s r' % Q),
  ('charge_costs_deriv', ['r:V'], 'V', 'sdev_deriv %s r (zeros (List.length r))' % Q),
  ('deriv', ['s:V', 'p:V'], 'V', 'sdev_deriv %s s p' % Q),
]


class STx(cx.Tx):
  def __init__(self, tree):
    super().__init__('SDevice', tree)
    self.mat_ok = None

  def check_matrix(self):
    if self.mat_ok:
      return
    init = self.method('__init__')
    a = [ast.unparse(s.value) for s in init.body if isinstance(s, ast.Assign) and ast.unparse(s.targets[0]) == 'self._sustainment_matrix']
    setter = None
    for n in self.clsnode.body:
      if isinstance(n, ast.FunctionDef) and n.name == 'sustainment' and any(isinstance(d, ast.Attribute) and d.attr == 'setter' for d in n.decorator_list):
        setter = n
    b = [ast.unparse(s.value) for s in (setter.body if setter else []) if isinstance(s, ast.Assign) and ast.unparse(s.targets[0]) == 'self._sustainment_matrix']
    arg = setter.args.args[1].arg if setter else '?'
    if a != ['sustainment_matrix(self.sustainment, len(self))'] or b != ['sustainment_matrix(%s, len(self))' % arg]:
      U(init, '_sustainment_matrix is not kept equal to sustainment_matrix(self.sustainment, len(self))')
    self.mat_ok = True

  def expr(self, e, env):
    # np.zeros(len(r))
    if isinstance(e, ast.Call) and ast.unparse(e.func) == 'np.zeros' and len(e.args) == 1 and self.len_of_vec(e.args[0], env):
      return '(zeros (List.length %s))' % self.len_of_vec(e.args[0], env), 'V'
    # self.efficiency ** np.sign(r)
    if isinstance(e, ast.BinOp) and isinstance(e.op, ast.Pow) and ast.unparse(e.left) == 'self.efficiency' and isinstance(e.right, ast.Call) and \
       ast.unparse(e.right.func) == 'np.sign' and len(e.right.args) == 1:
      t, ty = self.expr(e.right.args[0], env)
      if ty == 'V':
        return '(map (effof efficiency) %s)' % t, 'V'
      U(e, 'np.sign of %s' % ty)
    # np.hstack((r[1:], [0]))  /  np.hstack(([0], r[:-1]))
    if isinstance(e, ast.Call) and ast.unparse(e.func) == 'np.hstack' and len(e.args) == 1 and isinstance(e.args[0], ast.Tuple) and len(e.args[0].elts) == 2:
      a, b = e.args[0].elts
      zero = lambda x: isinstance(x, ast.List) and len(x.elts) == 1 and isinstance(x.elts[0], ast.Constant) and x.elts[0].value == 0
      def sl(x, lower, upper):
        return isinstance(x, ast.Subscript) and isinstance(x.slice, ast.Slice) and x.slice.step is None and \
            (ast.unparse(x.slice.lower) if x.slice.lower else None) == lower and (ast.unparse(x.slice.upper) if x.slice.upper else None) == upper
      if zero(b) and sl(a, '1', None):
        t, ty = self.expr(a.value, env)
        if ty == 'V':
          return '(tl %s ++ [n0])' % t, 'V'
      if zero(a) and sl(b, None, '-1'):
        t, ty = self.expr(b.value, env)
        if ty == 'V':
          return '(n0 :: removelast %s)' % t, 'V'
      U(e, 'np.hstack')
    # X[i] for a vector / a row of the stashed sustainment matrix
    if isinstance(e, ast.Subscript) and isinstance(e.slice, ast.Name) and e.slice.id in env and env[e.slice.id][1] == 'N':
      if ast.unparse(e.value) == 'self._sustainment_matrix':
        self.check_matrix()
        return '(nth %s (sust_matrix sustainment n) [])' % env[e.slice.id][0], 'V'
      t, ty = self.expr(e.value, env)
      if ty == 'V':
        return '(nth %s %s n0)' % (env[e.slice.id][0], t), 'S'
      U(e, 'subscript of %s' % ty)
    return super().expr(e, env)

  def len_of_vec(self, a, env):
    if isinstance(a, ast.Call) and isinstance(a.func, ast.Name) and a.func.id == 'len' and len(a.args) == 1 and isinstance(a.args[0], ast.Name) and \
       a.args[0].id in env and env[a.args[0].id][1] == 'V':
      return env[a.args[0].id][0]
    return None

  def call(self, e, env):
    f = e.func
    if isinstance(f, ast.Attribute) and isinstance(f.value, ast.Name) and f.value.id == 'self' and not e.keywords:
      for (m, ps, rt, _) in TARGETS:
        if m == f.attr and len(ps) == len(e.args):
          args = [self.expr(a, env) for a in e.args]
          if [t for _, t in args] != [p.split(':')[1] for p in ps]:
            U(e, 'argument types of self.%s' % m)
          return '(SDevice_%s %s%s)' % (m, NAMES, ''.join(' ' + a for a, _ in args)), rt
    return super().call(e, env)

  def stmts(self, body, env):
    if body:
      s, rest = body[0], body[1:]
      # for i in range(0, len(c)): d += <vector expression>
      if isinstance(s, ast.For) and not s.orelse and isinstance(s.target, ast.Name) and isinstance(s.iter, ast.Call) and ast.unparse(s.iter.func) == 'range' and \
         len(s.iter.args) == 2 and ast.unparse(s.iter.args[0]) == '0' and self.len_of_vec(s.iter.args[1], env) and len(s.body) == 1 and \
         isinstance(s.body[0], ast.AugAssign) and isinstance(s.body[0].op, ast.Add) and isinstance(s.body[0].target, ast.Name) and \
         s.body[0].target.id in env and env[s.body[0].target.id][1] == 'V':
        i, d = s.target.id, s.body[0].target.id
        env2 = dict(env)
        env2[i] = (i, 'N')
        t, ty = self.expr(s.body[0].value, env2)
        if ty != 'V':
          U(s, 'accumulated term of type %s' % ty)
        b, tb = self.stmts(rest, env)
        return '(let %s := fold_left (fun %s %s => map2 (fun x y => x + y) %s %s) (seq 0 (List.length %s)) %s in %s)' % (
            env[d][0], env[d][0], i, env[d][0], t, self.len_of_vec(s.iter.args[1], env), env[d][0], b), tb
    return super().stmts(body, env)


def gen_storage(repo):
  fname = os.path.join(repo, 'device_kit', 'sdevice.py')
  out = ['(* GENERATED by translator/sdevice_tx.py from device_kit/sdevice.py -- do not edit. *)',
         'From Coq Require Import ZArith List Bool Arith.', 'From DK Require Import Num Vec.', 'From DK.Gen Require Import Kernels Classes.',
         'From DK.Model Require Import Leaf.', 'Import ListNotations.', 'Section Storage.', 'Context {A : Type} `{Num A}.',
         'Local Open Scope num_scope.',
         '(* the deep-discharge part of the model marginal cost (fallback for deep_damage_at_deriv) *)',
         'Definition sdev_ddamage (q : sparams A) (r : list A) : list A :=',
         "  map (fun '(k, x) => vsum (map (fun '(i, m) => n2 * sp_c3 q * m * nth k (sust_row (sp_sus q) (List.length r) i) n0 * effof (sp_eff q) x) (idx (sdev_short q r)))) (idx r).", '']
  try:
    tx = STx(ast.parse(open(fname).read(), fname))
  except (SyntaxError, StopIteration, OSError):
    tx = None
  translated, untranslated = [], []
  for (m, params, rtype, fallback) in TARGETS:
    binders = ' '.join('(%s : %s)' % (p.split(':')[0], cx.COQTYPE[p.split(':')[1]]) for p in params)
    head = 'Definition SDevice_%s %s %s : %s :=' % (m, DECL, binders, cx.COQTYPE[rtype])
    try:
      if tx is None:
        raise Unsupported('?:Module:cannot parse sdevice.py')
      body = tx.translate(m, params, rtype)
      translated.append('SDevice_' + m)
      out.append('(* sdevice.py: SDevice.%s *)' % m)
    except Unsupported as e:
      body = fallback
      untranslated.append('SDevice_' + m)
      out.append('(* sdevice.py: SDevice.%s NOT TRANSLATED (%s): alias of the hand-written model, tie falls back to the correspondence *)' % (
          m, str(e).replace('*)', '* )')))
    out.append(head + '\n  ' + body + '.\n')
  out.append('End Storage.')
  out.append('From Coq Require Import String.')
  out.append('Definition storage_translated : list String.string := [%s]%%string.' % '; '.join('"%s"' % x for x in translated))
  out.append('Definition storage_untranslated : list String.string := [%s]%%string.' % '; '.join('"%s"' % x for x in untranslated))
  return '\n'.join(out) + '\n'


if __name__ == '__main__':
  import sys
  print(gen_storage(sys.argv[1] if len(sys.argv) > 1 else '/repo'))
