"""Preference-function combinators of device_kit/functions.py  ->  coq/Gen/Functions.v.

NullFunction, SumFunction (with its constructor's empty-list rule), ReflectedFunction, InnerSumFunction, X2D, Poly2D and
Poly2DOffset (vector / __call__ / deriv / hess, the lazily built derivative objects read through): __call__, deriv and hess of each,
over ABSTRACT operand functions (an `fobj` record of call / deriv / hess, `sfobj` for scalar functions; Model/FnOps.v), so the
generated text says how ONE combinator composes whatever its operands do.  Proofs/GenFunctions.v instantiates the operands with the
function AST of Model/Fn.v (feval / fderiv / fhess) and proves each combinator equal to the corresponding AST node, hence (by the
induction of C01 / C14) every composition.  Graceful per method.
"""
import ast
import os


class Unsupported(Exception):
  pass


def U(node, why):
  raise Unsupported('%s:%s:%s' % (getattr(node, 'lineno', '?'), type(node).__name__, why))


COQTYPE = {'S': 'A', 'V': 'list A', 'M': 'list (list A)', 'FOBJ': 'fobj A', 'LFOBJ': 'list (fobj A)', 'SFOBJ': 'sfobj A',
           'LSFOBJ': 'list (sfobj A)', 'POLYS': 'list (list A)'}

# class -> (attribute -> (coq binder, type)), declaration of the binders
CLASSES = {
  'NullFunction': ({}, ''),
  'SumFunction': ({'functions': ('functions', 'LFOBJ')}, '(functions : list (fobj A))'),
  'ReflectedFunction': ({'function': ('function', 'FOBJ')}, '(function : fobj A)'),
  'InnerSumFunction': ({'outer_function': ('outer_function', 'SFOBJ')}, '(outer_function : sfobj A)'),
  'X2D': ({'functions': ('functions', 'LSFOBJ')}, '(functions : list (sfobj A))'),
  'Poly2D': ({'coeffs': ('coeffs', 'POLYS')}, '(coeffs : list (list A))'),
  'Poly2DOffset': ({'coeffs': ('coeffs', 'POLYS'), 'offsets': ('offsets', 'V')}, '(coeffs : list (list A)) (offsets : list A)'),
}
# (class, method, result type, fallback)
TARGETS = [
  ('NullFunction', '__call__', 'S', 'n0'),
  ('NullFunction', 'deriv', 'V', 'zeros (length x)'),
  ('NullFunction', 'hess', 'M', 'mconst (length x) (length x) n0'),
  ('SumFunction', '__call__', 'S', 'vsum (map (fun v => f_call v x) functions)'),
  ('SumFunction', 'deriv', 'V', 'colsum (length x) (map (fun v => f_deriv v x) functions)'),
  ('SumFunction', 'hess', 'M', 'msum (length x) (map (fun v => f_hess v x) functions)'),
  ('ReflectedFunction', '__call__', 'S', 'f_call function (vopp x)'),
  ('ReflectedFunction', 'deriv', 'V', 'vopp (f_deriv function (vopp x))'),
  ('ReflectedFunction', 'hess', 'M', 'f_hess function (vopp x)'),
  ('InnerSumFunction', '__call__', 'S', 'sf_call outer_function (vsum x)'),
  ('InnerSumFunction', 'deriv', 'V', 'vscale (sf_deriv outer_function (vsum x)) (ones (length x))'),
  ('InnerSumFunction', 'hess', 'M', 'mconst (length x) (length x) (sf_hess outer_function (vsum x))'),
  ('X2D', '__call__', 'S', "vsum (map (fun kv => sf_call (nth (fst kv) functions null_sfobj) (snd kv)) (idx x))"),
  ('X2D', 'deriv', 'V', "map (fun kv => sf_deriv (nth (fst kv) functions null_sfobj) (snd kv)) (idx x)"),
  ('X2D', 'hess', 'M', "diag (map (fun kv => sf_hess (nth (fst kv) functions null_sfobj) (snd kv)) (idx x))"),
  ('Poly2D', 'vector', 'V', "map (fun kv => horner (nth (fst kv) coeffs []) (snd kv)) (idx x)"),
  ('Poly2D', '__call__', 'S', 'vsum (Poly2D_vector coeffs x)'),
  ('Poly2D', 'deriv', 'V', 'Poly2D_vector (map poly_deriv_padded coeffs) x'),
  ('Poly2D', 'hess', 'M', 'diag (Poly2D_vector (map poly_deriv2_padded coeffs) x)'),
  ('Poly2DOffset', 'vector', 'V', "map (fun kv => horner (nth (fst kv) coeffs []) (snd kv + nth (fst kv) offsets n0)) (idx x)"),
  ('Poly2DOffset', '__call__', 'S', 'vsum (Poly2DOffset_vector coeffs offsets x)'),
  ('Poly2DOffset', 'deriv', 'V', 'Poly2DOffset_vector (map poly_deriv_padded coeffs) offsets x'),
  ('Poly2DOffset', 'hess', 'M', 'diag (Poly2DOffset_vector (map poly_deriv2_padded coeffs) offsets x)'),
]


def names_of(cls):
  return ' '.join(b for b, _ in CLASSES[cls][0].values())


class Tx:
  def __init__(self, tree, cls):
    self.cls = cls
    self.node = next(c for c in tree.body if isinstance(c, ast.ClassDef) and c.name == cls)
    self.attrs = CLASSES[cls][0]

  def method(self, name):
    for n in self.node.body:
      if isinstance(n, ast.FunctionDef) and n.name == name and not n.decorator_list:
        return n
    U(self.node, 'method %s.%s' % (self.cls, name))

  def check_init(self):
    """the attributes are the constructor arguments (SumFunction: with the empty-list rule, translated separately)"""
    init = self.method('__init__') if self.attrs else None
    if init is None:
      return
    got = {ast.unparse(s.targets[0]): ast.unparse(s.value) for s in init.body if isinstance(s, ast.Assign) and len(s.targets) == 1}
    want = {
      'SumFunction': {'self.functions': 'functions if len(functions) else [NullFunction()]'},
      'ReflectedFunction': {'self.function': 'function'},
      'InnerSumFunction': {'self.outer_function': 'outer_function'},
      'X2D': {'self.functions': 'functions'},
      'Poly2D': {'self.coeffs': 'np.array(coeffs)', 'self._polys': '[np.poly1d(c) for c in self.coeffs]'},
      'Poly2DOffset': {'self.coeffs': 'np.array(coeffs)[:, 0:3]', 'self.offsets': 'np.array(coeffs)[:, 3]', 'self._polys': '[np.poly1d(c) for c in self.coeffs]'},
    }[self.cls]
    if got != want:
      U(init, 'constructor stores %s' % got)
    ln = [n for n in self.node.body if isinstance(n, ast.FunctionDef) and n.name == '__len__']
    if ln:
      b = [s for s in ln[0].body if not (isinstance(s, ast.Expr) and isinstance(s.value, ast.Constant))]
      want_len = {'X2D': 'len(self.functions)', 'Poly2D': 'len(self.coeffs)', 'Poly2DOffset': 'len(self.coeffs)'}.get(self.cls)
      if not (len(b) == 1 and isinstance(b[0], ast.Return) and ast.unparse(b[0].value) == want_len):
        U(ln[0], '__len__')

  # ---- expressions
  def ex(self, e, env):
    if isinstance(e, ast.Constant) and isinstance(e.value, int) and not isinstance(e.value, bool):
      return str(e.value), 'I'
    if isinstance(e, ast.Name):
      if e.id in env:
        return env[e.id]
      U(e, 'name %s' % e.id)
    if isinstance(e, ast.UnaryOp) and isinstance(e.op, ast.USub) and isinstance(e.operand, ast.Constant) and e.operand.value == 1:
      return '-1', 'I'
    if isinstance(e, ast.Attribute) and isinstance(e.value, ast.Name) and e.value.id == 'self':
      if e.attr in self.attrs:
        self.check_init()
        return self.attrs[e.attr]
      if e.attr == '_polys' and self.cls in ('Poly2D', 'Poly2DOffset'):
        self.check_init()
        return 'coeffs', 'POLYOBJS'
      U(e, 'attribute self.%s' % e.attr)
    if isinstance(e, ast.BinOp):
      a, ta = self.ex(e.left, env)
      b, tb = self.ex(e.right, env)
      if isinstance(e.op, ast.Mult):
        if (ta, tb) in (('I', 'V'), ('V', 'I')) and '-1' in (a, b):
          return '(vopp %s)' % (b if ta == 'I' else a), 'V'
        if (ta, tb) == ('S', 'ONESV'):
          return '(vscale %s (ones %s))' % (a, b), 'V'
        if (ta, tb) == ('S', 'ONESM'):
          return '(mconst %s %s %s)' % (b, b, a), 'M'
      if isinstance(e.op, ast.Add) and (ta, tb) == ('S', 'S'):
        return '(%s + %s)' % (a, b), 'S'
      U(e, 'operator on %s, %s' % (ta, tb))
    if isinstance(e, ast.Subscript):
      v, tv = self.ex(e.value, env)
      i, ti = self.ex(e.slice, env)
      if tv == 'LSFOBJ' and ti == 'N':
        return '(nth %s %s null_sfobj)' % (i, v), 'SFOBJ'
      if tv == 'POLYOBJS' and ti == 'N':
        return '(nth %s %s [])' % (i, v), 'POLYOBJ'
      if tv == 'V' and ti == 'N':
        return '(nth %s %s n0)' % (i, v), 'S'
      U(e, 'subscript of %s' % tv)
    if isinstance(e, ast.Call):
      return self.call(e, env)
    if isinstance(e, ast.ListComp):
      return self.listcomp(e, env)
    U(e, 'expression')

  def is_len_x(self, e, env):
    return isinstance(e, ast.Call) and isinstance(e.func, ast.Name) and e.func.id == 'len' and len(e.args) == 1 and \
        isinstance(e.args[0], ast.Name) and env.get(e.args[0].id, (None, None))[1] == 'V'

  def call(self, e, env):
    f = e.func
    kws = {k.arg: ast.unparse(k.value) for k in e.keywords}
    if isinstance(f, ast.Attribute) and isinstance(f.value, ast.Name) and f.value.id == 'np':
      if f.attr == 'array' and len(e.args) == 1 and not kws:
        t, ty = self.ex(e.args[0], env)
        if ty in ('V', 'LV', 'LM', 'LS'):
          return t, ty
        U(e, 'np.array of %s' % ty)
      if f.attr == 'zeros' and len(e.args) == 1 and not kws:
        a = e.args[0]
        # np.zeros(np.array(x).shape) / np.zeros(np.array(x).shape*2)
        def shape_of_x(n):
          return isinstance(n, ast.Attribute) and n.attr == 'shape' and isinstance(n.value, ast.Call) and ast.unparse(n.value.func) == 'np.array' and \
              len(n.value.args) == 1 and isinstance(n.value.args[0], ast.Name) and env.get(n.value.args[0].id, (0, 0))[1] == 'V'
        if shape_of_x(a):
          x = env[a.value.args[0].id][0]
          return '(zeros (length %s))' % x, 'V'
        if isinstance(a, ast.BinOp) and isinstance(a.op, ast.Mult) and shape_of_x(a.left) and isinstance(a.right, ast.Constant) and a.right.value == 2:
          x = env[a.left.value.args[0].id][0]
          return '(mconst (length %s) (length %s) n0)' % (x, x), 'M'
        U(e, 'np.zeros')
      if f.attr == 'ones' and len(e.args) == 1 and not kws:
        a = e.args[0]
        if self.is_len_x(a, env):
          return '(length %s)' % env[a.args[0].id][0], 'ONESV'
        if isinstance(a, ast.Tuple) and len(a.elts) == 2 and all(self.is_len_x(z, env) for z in a.elts) and ast.dump(a.elts[0]) == ast.dump(a.elts[1]):
          return '(length %s)' % env[a.elts[0].args[0].id][0], 'ONESM'
        U(e, 'np.ones')
      if f.attr == 'diag' and len(e.args) == 1 and not kws:
        t, ty = self.ex(e.args[0], env)
        if ty == 'V':
          return '(diag %s)' % t, 'M'
        U(e, 'np.diag of %s' % ty)
      U(e, 'np.%s' % f.attr)
    if isinstance(f, ast.Name) and f.id == 'enumerate' and len(e.args) == 1:
      t, ty = self.ex(e.args[0], env)
      if ty == 'V':
        return '(idx %s)' % t, 'ENUMV'
      U(e, 'enumerate of %s' % ty)
    if isinstance(f, ast.Name) and f.id in ('Poly2D', 'Poly2DOffset') and len(e.args) == 1 and not kws:
      return self.poly_ctor(f.id, e.args[0], env)
    if not isinstance(f, ast.Attribute) or (isinstance(f.value, ast.Name) and f.value.id == 'self' and f.attr in self.attrs):
      # calling a function object / a scalar function / a polynomial
      t, ty = self.ex(f, env)
      if len(e.args) == 1 and not kws:
        a, ta = self.ex(e.args[0], env)
        if ty == 'FOBJ' and ta == 'V':
          return '(f_call %s %s)' % (t, a), 'S'
        if ty == 'SFOBJ' and ta == 'S':
          return '(sf_call %s %s)' % (t, a), 'S'
        if ty == 'POLYOBJ' and ta == 'S':
          return '(horner %s %s)' % (t, a), 'S'
      U(e, 'call of a %s' % ty)
    # methods
    if f.attr == 'sum' and not e.args:
      t, ty = self.ex(f.value, env)
      if ty in ('V', 'LS') and not kws:
        return '(vsum %s)' % t, 'S'
      if ty == 'LV' and kws == {'axis': '0'}:
        return '(colsum (length x) %s)' % t, 'V'
      if ty == 'LM' and kws == {'axis': '0'}:
        return '(msum (length x) %s)' % t, 'M'
      U(e, '.sum(%s) of %s' % (kws, ty))
    if f.attr == 'reshape' and len(e.args) == 1 and not kws:
      t, ty = self.ex(f.value, env)
      a = e.args[0]
      # X.reshape(len(self)) of the argument vector, X.reshape(-1) of a list of scalars
      if ty == 'V' and ast.unparse(a) == 'len(self)':
        self.check_init()
        return t, 'V'
      if ty in ('LS', 'V') and ast.unparse(a) == '-1':
        return t, 'V'
      U(e, 'reshape')
    if f.attr == 'flatten' and not e.args and not kws:
      t, ty = self.ex(f.value, env)
      if ty in ('LS', 'V'):
        return t, 'V'
    if f.attr in ('deriv', 'hess', 'vector') and len(e.args) == 1 and not kws:
      if isinstance(f.value, ast.Name) and f.value.id == 'self' and f.attr == 'vector':
        a, ta = self.ex(e.args[0], env)
        if ta == 'V':
          return '(%s_vector %s %s)' % (self.cls, names_of(self.cls), a), 'V'
      if isinstance(f.value, ast.Attribute) and isinstance(f.value.value, ast.Name) and f.value.value.id == 'self' and f.value.attr in ('_deriv', '_hess') and f.attr == 'vector':
        # self._deriv.vector(x): the lazily built derivative object (checked in stmts)
        obj = env.get('self.' + f.value.attr)
        a, ta = self.ex(e.args[0], env)
        if obj and ta == 'V':
          return '(%s_vector %s %s)' % (self.cls, obj, a), 'V'
        U(e, 'derivative object')
      t, ty = self.ex(f.value, env)
      a, ta = self.ex(e.args[0], env)
      if ty == 'FOBJ' and ta == 'V' and f.attr in ('deriv', 'hess'):
        return '(f_%s %s %s)' % (f.attr, t, a), {'deriv': 'V', 'hess': 'M'}[f.attr]
      if ty == 'SFOBJ' and ta == 'S' and f.attr in ('deriv', 'hess'):
        return '(sf_%s %s %s)' % (f.attr, t, a), 'S'
    if isinstance(f.value, ast.Name) and f.value.id == 'self' and f.attr == 'vector':
      pass
    U(e, 'call of .%s' % f.attr)

  def poly_ctor(self, cname, arg, env):
    """Poly2D([np.polyadd(np.zeros(len(c)), np.poly1d(c).deriv(k).coeffs) for c in self.coeffs])  and the Poly2DOffset form
    np.concatenate((_coeffs, self.offsets.reshape((len(self), 1))), axis=1)  ->  the binders of the derived object"""
    def deriv_list(n):
      if isinstance(n, ast.Name) and n.id in env and env[n.id][1] == 'DPOLYS':
        return env[n.id][0]
      if isinstance(n, ast.ListComp) and len(n.generators) == 1 and ast.unparse(n.generators[0].iter) == 'self.coeffs' and \
         isinstance(n.generators[0].target, ast.Name) and not n.generators[0].ifs:
        c = n.generators[0].target.id
        s = ast.unparse(n.elt)
        if s == 'np.polyadd(np.zeros(len(%s)), np.poly1d(%s).deriv().coeffs)' % (c, c):
          self.check_init()
          return '(map poly_deriv_padded coeffs)'
        if s == 'np.polyadd(np.zeros(len(%s)), np.poly1d(%s).deriv(2).coeffs)' % (c, c):
          self.check_init()
          return '(map poly_deriv2_padded coeffs)'
      return None
    if cname == 'Poly2D' and self.cls == 'Poly2D':
      d = deriv_list(arg)
      if d:
        return d, 'POLY2D'
    if cname == 'Poly2DOffset' and self.cls == 'Poly2DOffset':
      if isinstance(arg, ast.Call) and ast.unparse(arg.func) == 'np.concatenate' and len(arg.args) == 1 and \
         {k.arg: ast.unparse(k.value) for k in arg.keywords} == {'axis': '1'} and isinstance(arg.args[0], ast.Tuple) and len(arg.args[0].elts) == 2 and \
         ast.unparse(arg.args[0].elts[1]) == 'self.offsets.reshape((len(self), 1))':
        d = deriv_list(arg.args[0].elts[0])
        if d:
          return d + ' offsets', 'POLY2D'
    U(arg, 'derived polynomial object')

  def listcomp(self, e, env):
    if len(e.generators) != 1 or e.generators[0].ifs:
      U(e, 'comprehension')
    g = e.generators[0]
    it, ti = self.ex(g.iter, env)
    env2 = dict(env)
    if ti == 'LFOBJ' and isinstance(g.target, ast.Name):
      v = g.target.id
      env2[v] = (v, 'FOBJ')
      b, tb = self.ex(e.elt, env2)
      out = {'S': 'LS', 'V': 'LV', 'M': 'LM'}.get(tb) or U(e, 'comprehension of %s' % tb)
      return '(map (fun %s => %s) %s)' % (v, b, it), out
    if ti == 'ENUMV' and isinstance(g.target, ast.Tuple) and len(g.target.elts) == 2 and all(isinstance(z, ast.Name) for z in g.target.elts):
      k, v = g.target.elts[0].id, g.target.elts[1].id
      env2[k], env2[v] = (k, 'N'), (v, 'S')
      b, tb = self.ex(e.elt, env2)
      if tb != 'S':
        U(e, 'comprehension of %s' % tb)
      return '(map (fun kv => let %s := fst kv in let %s := snd kv in %s) %s)' % (k, v, b, it), 'LS'
    U(e, 'comprehension over %s' % ti)

  def stmts(self, body, env):
    if not body:
      U(ast.Pass(), 'falls off the end')
    s, rest = body[0], body[1:]
    if isinstance(s, ast.Expr) and isinstance(s.value, ast.Constant) and isinstance(s.value.value, str):
      return self.stmts(rest, env)
    if isinstance(s, ast.Return) and s.value is not None:
      return self.ex(s.value, env)
    # if not self._deriv: [_coeffs = ...;] self._deriv = <derived object>     (a cache: read through)
    if isinstance(s, ast.If) and not s.orelse and ast.unparse(s.test) in ('not self._deriv', 'not self._hess'):
      which = ast.unparse(s.test)[4:]
      env2 = dict(env)
      for st in s.body:
        if isinstance(st, ast.Assign) and len(st.targets) == 1 and isinstance(st.targets[0], ast.Name):
          # a local list of derivative coefficient rows
          probe = self.poly_ctor_rows(st.value)
          if probe is None:
            U(st, 'cache statement')
          env2[st.targets[0].id] = (probe, 'DPOLYS')
        elif isinstance(st, ast.Assign) and len(st.targets) == 1 and ast.unparse(st.targets[0]) == which and isinstance(st.value, ast.Call) and \
            isinstance(st.value.func, ast.Name):
          t, ty = self.ex(st.value, env2)
          if ty != 'POLY2D':
            U(st, 'cache object')
          env2[which] = t
        else:
          U(st, 'cache statement')
      if which not in env2:
        U(s, 'cache not assigned')
      return self.stmts(rest, env2)
    U(s, 'statement')

  def poly_ctor_rows(self, v):
    if isinstance(v, ast.ListComp) and len(v.generators) == 1 and ast.unparse(v.generators[0].iter) == 'self.coeffs' and isinstance(v.generators[0].target, ast.Name):
      c = v.generators[0].target.id
      s = ast.unparse(v.elt)
      if s == 'np.polyadd(np.zeros(len(%s)), np.poly1d(%s).deriv().coeffs)' % (c, c):
        return '(map poly_deriv_padded coeffs)'
      if s == 'np.polyadd(np.zeros(len(%s)), np.poly1d(%s).deriv(2).coeffs)' % (c, c):
        return '(map poly_deriv2_padded coeffs)'
    return None

  def translate(self, name, rtype):
    m = self.method(name)
    names = [a.arg for a in m.args.args][1:]
    if names != ['x'] or m.args.vararg or m.args.kwarg or m.args.kwonlyargs:
      U(m, 'parameters %s' % names)
    t, ty = self.stmts(m.body, {'x': ('x', 'V')})
    if ty == 'I' and rtype == 'S':
      t, ty = ('n0' if t == '0' else U(m, 'integer result')), 'S'
    if ty == 'LS' and rtype == 'V':
      ty = 'V'
    if ty != rtype:
      U(m, 'result type %s, expected %s' % (ty, rtype))
    return t


def tr_ranges(tree):
  """RangesFunction.__call__ / deriv over abstract operand functions: `x[range(*_range)]` is the slice of the range, `self.functions[k]`
  the k-th operand, the comprehension runs over enumerate(self.ranges); deriv concatenates with reduce(lambda a, b: list(a) + list(b), ., [])."""
  def un(e):
    return ast.unparse(e)
  try:
    node = next(c for c in tree.body if isinstance(c, ast.ClassDef) and c.name == 'RangesFunction')
  except StopIteration:
    raise Unsupported('?:Module:class RangesFunction not found')
  meths = {n.name: n for n in node.body if isinstance(n, ast.FunctionDef)}
  init = meths.get('__init__') or U(node, 'constructor')
  got = {un(s.targets[0]): un(s.value) for s in init.body if isinstance(s, ast.Assign) and len(s.targets) == 1}
  if got.get('self.ranges') != '[f[0] for f in range_functions]' or got.get('self.functions') != '[f[1] for f in range_functions]' or got.get('self._len') != 'self.ranges[-1][1]':
    U(init, 'constructor stores %s' % got)
  ln = meths.get('__len__')
  if ln is None or un(ln.body[-1]) != 'return self._len':
    U(node, '__len__')

  def comp(e, attr):
    """[self.functions[k]<.attr>(x[range(*_range)]) for k, _range in enumerate(self.ranges)]"""
    if not (isinstance(e, ast.ListComp) and len(e.generators) == 1 and not e.generators[0].ifs):
      U(e, 'comprehension')
    g = e.generators[0]
    if not (isinstance(g.target, ast.Tuple) and len(g.target.elts) == 2 and all(isinstance(z, ast.Name) for z in g.target.elts) and un(g.iter) == 'enumerate(self.ranges)'):
      U(g, 'generator')
    k, r = (z.id for z in g.target.elts)
    c = e.elt
    if not (isinstance(c, ast.Call) and len(c.args) == 1 and not c.keywords):
      U(c, 'element')
    f = c.func
    if attr:
      if not (isinstance(f, ast.Attribute) and f.attr == attr):
        U(c, 'operand method')
      f = f.value
    # the operand: self.functions[<index expression in k>]
    if not (isinstance(f, ast.Subscript) and un(f.value) == 'self.functions'):
      U(c, 'operand')
    def nexpr(z):
      if isinstance(z, ast.Name) and z.id == k:
        return k
      if isinstance(z, ast.Constant) and isinstance(z.value, int) and not isinstance(z.value, bool) and z.value >= 0:
        return '%d%%nat' % z.value
      if isinstance(z, ast.BinOp) and isinstance(z.op, ast.Add):
        return '(%s + %s)%%nat' % (nexpr(z.left), nexpr(z.right))
      U(z, 'index expression')
    idx = nexpr(f.slice)
    # the argument: x[range(*_range)]  /  x[range(_range[0], _range[1])]
    a = c.args[0]
    if not (isinstance(a, ast.Subscript) and un(a.value) == 'x' and isinstance(a.slice, ast.Call) and un(a.slice.func) == 'range'):
      U(a, 'argument')
    ra = a.slice.args
    if len(ra) == 1 and isinstance(ra[0], ast.Starred) and un(ra[0].value) == r:
      lo, hi = '(fst %s)' % r, '(snd %s)' % r
    elif len(ra) == 2 and all(isinstance(z, ast.Subscript) and un(z.value) == r and isinstance(z.slice, ast.Constant) and z.slice.value in (0, 1) for z in ra):
      lo, hi = ('(%s %s)' % ('fst' if z.slice.value == 0 else 'snd', r) for z in ra)
    else:
      U(a, 'range')
    meth = {'': 'f_call', 'deriv': 'f_deriv'}[attr]
    return '(map (fun kr => let %s := fst kr in let %s := snd kr in %s (nth %s functions null_fobj) (slice %s %s x)) (enum_ranges ranges))' % (k, r, meth, idx, lo, hi)

  def body_of(name):
    m = meths.get(name) or U(node, 'method %s' % name)
    if [a.arg for a in m.args.args] != ['self', 'x']:
      U(m, 'parameters')
    b = [s for s in m.body if not (isinstance(s, ast.Expr) and isinstance(s.value, ast.Constant))]
    if not b or un(b[0]) != 'x = x.reshape((len(self),))':
      U(m, 'reshape of the argument')
    return b[1:]
  out = {}
  b = body_of('__call__')
  if not (len(b) == 1 and isinstance(b[0], ast.Return) and isinstance(b[0].value, ast.Call) and isinstance(b[0].value.func, ast.Attribute) and b[0].value.func.attr == 'sum' and
          not b[0].value.args and not b[0].value.keywords and isinstance(b[0].value.func.value, ast.Call) and un(b[0].value.func.value.func) == 'np.array' and len(b[0].value.func.value.args) == 1):
    U(meths['__call__'], '__call__ body')
  out['call'] = '(vsum %s)' % comp(b[0].value.func.value.args[0], '')
  b = body_of('deriv')
  if not (len(b) == 2 and isinstance(b[0], ast.Assign) and isinstance(b[0].targets[0], ast.Name) and isinstance(b[1], ast.Return)):
    U(meths['deriv'], 'deriv body')
  v = b[0].targets[0].id
  if un(b[1].value) != 'np.array(reduce(lambda a, b: list(a) + list(b), %s, []))' % v:
    U(b[1], 'concatenation')
  out['deriv'] = '(let %s := %s in fold_left (fun a b => a ++ b) %s [])' % (v, comp(b[0].value, 'deriv'), v)
  return out


def tr_adevice(repo):
  """ADevice.cost / deriv / hess (device_kit/adevice.py) over an abstract preference function object `f` (the property `f` is checked to
  return what its setter stored): `s = s.reshape(len(self))`, then f(s) + (s*p).sum(), f.deriv(s) + p, f.hess(s)."""
  def un(e):
    return ast.unparse(e)
  tree = ast.parse(open(os.path.join(repo, 'device_kit', 'adevice.py')).read())
  try:
    node = next(c for c in tree.body if isinstance(c, ast.ClassDef) and c.name == 'ADevice')
  except StopIteration:
    raise Unsupported('?:Module:class ADevice not found')
  getter = setter = None
  for n in node.body:
    if isinstance(n, ast.FunctionDef) and n.name == 'f':
      decs = [un(d) for d in n.decorator_list]
      if decs == ['property']:
        getter = n
      elif decs == ['f.setter']:
        setter = n
  if getter is None or un(getter.body[-1]) != 'return self._f' or setter is None or un(setter.body[-1]) != 'self._f = %s' % setter.args.args[1].arg:
    U(node, 'the property f is not what its setter stored')
  meths = {n.name: n for n in node.body if isinstance(n, ast.FunctionDef) and not n.decorator_list}

  def vex(e):
    if isinstance(e, ast.Name) and e.id in ('s', 'p'):
      return e.id, 'V'
    if isinstance(e, ast.Call) and un(e.func) == 'self.f' and len(e.args) == 1 and not e.keywords:
      a = vex(e.args[0])
      if a[1] == 'V':
        return '(f_call f %s)' % a[0], 'S'
    if isinstance(e, ast.Call) and un(e.func) in ('self.f.deriv', 'self.f.hess') and len(e.args) == 1 and not e.keywords:
      a = vex(e.args[0])
      if a[1] == 'V':
        return ('(f_deriv f %s)' % a[0], 'V') if un(e.func).endswith('deriv') else ('(f_hess f %s)' % a[0], 'M')
    if isinstance(e, ast.Call) and isinstance(e.func, ast.Attribute) and e.func.attr == 'sum' and not e.args and not e.keywords:
      a = vex(e.func.value)
      if a[1] == 'V':
        return '(vsum %s)' % a[0], 'S'
    if isinstance(e, ast.BinOp):
      a, b = vex(e.left), vex(e.right)
      if isinstance(e.op, ast.Mult) and (a[1], b[1]) == ('V', 'V'):
        return '(vmul %s %s)' % (a[0], b[0]), 'V'
      if isinstance(e.op, ast.Add) and (a[1], b[1]) == ('S', 'S'):
        return '(%s + %s)' % (a[0], b[0]), 'S'
      if isinstance(e.op, ast.Add) and (a[1], b[1]) == ('V', 'V'):
        return '(vadd %s %s)' % (a[0], b[0]), 'V'
      if isinstance(e.op, ast.Sub) and (a[1], b[1]) == ('V', 'V'):
        return '(vsub %s %s)' % (a[0], b[0]), 'V'
    U(e, 'expression %s' % un(e))
  out = {}
  for name, rt in (('cost', 'S'), ('deriv', 'V'), ('hess', 'M')):
    m = meths.get(name) or U(node, 'method %s' % name)
    if [a.arg for a in m.args.args] != ['self', 's', 'p'] or [un(d) for d in m.args.defaults] != ['0']:
      U(m, 'parameters')
    b = [x for x in m.body if not (isinstance(x, ast.Expr) and isinstance(x.value, ast.Constant))]
    if len(b) != 2 or un(b[0]) != 's = s.reshape(len(self))' or not isinstance(b[1], ast.Return):
      U(m, 'body')
    t, ty = vex(b[1].value)
    if ty != rt:
      U(m, 'result type %s' % ty)
    out[name] = t
  return out


def tr_demand(tree):
  """DemandFunction: inner_function(np.max(x)); deriv / hess put the inner polynomial's first / second derivative at x[argmax] into a zero
  vector at index argmax (hess: np.diag of it)."""
  def un(e):
    return ast.unparse(e)
  try:
    node = next(c for c in tree.body if isinstance(c, ast.ClassDef) and c.name == 'DemandFunction')
  except StopIteration:
    raise Unsupported('?:Module:class DemandFunction not found')
  meths = {n.name: n for n in node.body if isinstance(n, ast.FunctionDef)}
  init = meths.get('__init__') or U(node, 'constructor')
  if 'self.inner_function = inner_function' not in [un(x) for x in init.body]:
    U(init, 'constructor')

  def code(m):
    return [x for x in m.body if not (isinstance(x, ast.Expr) and isinstance(x.value, ast.Constant))]

  def poly(e):
    """self.inner_function / .deriv() / .deriv(k) -> coefficient list term"""
    if un(e) == 'self.inner_function':
      return 'inner_function'
    if isinstance(e, ast.Call) and isinstance(e.func, ast.Attribute) and e.func.attr == 'deriv' and not e.keywords:
      base = poly(e.func.value)
      k = 1
      if e.args:
        if len(e.args) != 1 or not (isinstance(e.args[0], ast.Constant) and isinstance(e.args[0].value, int) and 0 <= e.args[0].value <= 4):
          U(e, 'derivative order')
        k = e.args[0].value
      for _ in range(k):
        base = '(pderiv %s)' % base
      return base
    U(e, 'polynomial %s' % un(e))

  def scalar(e, env):
    if isinstance(e, ast.Call) and un(e.func) == 'np.max' and len(e.args) == 1 and un(e.args[0]) == 'x':
      return '(vmax x)'
    if isinstance(e, ast.Subscript) and un(e.value) == 'x' and isinstance(e.slice, ast.Name) and env.get(e.slice.id) == 'N':
      return '(nth %s x n0)' % e.slice.id
    U(e, 'scalar %s' % un(e))

  def apply(e, env):
    if isinstance(e, ast.Call) and len(e.args) == 1 and not e.keywords:
      return '(horner %s %s)' % (poly(e.func), scalar(e.args[0], env))
    U(e, 'application %s' % un(e))
  out = {}
  b = code(meths.get('__call__') or U(node, '__call__'))
  if len(b) != 1 or not isinstance(b[0], ast.Return):
    U(node, '__call__ body')
  out['call'] = apply(b[0].value, {})
  for name in ('deriv', 'hess'):
    b = code(meths.get(name) or U(node, name))
    if len(b) != 4 or un(b[0]) != '_x = np.zeros(np.array(x).shape)' or un(b[1]) != 'i = np.argmax(x)':
      U(node, '%s prologue' % name)
    a = b[2]
    if not (isinstance(a, ast.Assign) and un(a.targets[0]) == '_x[i]'):
      U(a, 'assignment')
    v = apply(a.value, {'i': 'N'})
    vec = '(let _x := zeros (length x) in let i := argmax x in upd _x i %s)' % v
    r = un(b[3])
    if name == 'deriv' and r == 'return _x':
      out[name] = vec
    elif name == 'hess' and r == 'return np.diag(_x)':
      out[name] = '(diag %s)' % vec
    else:
      U(b[3], 'result')
  return out


def tr_cdevice2(repo):
  """CDevice2._cost_fn / cost / deriv (device_kit/cdevice2.py): the preference object is InnerSumFunction(HLQuadraticCost(p_l, p_h, c[0], c[1]))
  for one cumulative range and RangesFunction([((c[2], c[3]), InnerSumFunction(HLQuadraticCost(p_l, p_h, c[0], c[1]))) for c in cbounds])
  otherwise; an object's methods are the generated methods of its class (innersum_fobj / ranges_fobj below)."""
  def un(e):
    return ast.unparse(e)
  tree = ast.parse(open(os.path.join(repo, 'device_kit', 'cdevice2.py')).read())
  try:
    node = next(c for c in tree.body if isinstance(c, ast.ClassDef) and c.name == 'CDevice2')
  except StopIteration:
    raise Unsupported('?:Module:class CDevice2 not found')
  props = {n.name: n for n in node.body if isinstance(n, ast.FunctionDef) and [un(d) for d in n.decorator_list] == ['property']}
  meths = {n.name: n for n in node.body if isinstance(n, ast.FunctionDef) and not n.decorator_list}
  for nm, ret in (('p_h', 'self._p_h'), ('p_l', 'self._p_l')):
    if nm not in props or un(props[nm].body[-1]) != 'return %s' % ret:
      U(node, 'property %s' % nm)
  cf = props.get('_cost_fn') or U(node, '_cost_fn')
  b = [x for x in cf.body if not (isinstance(x, ast.Expr) and isinstance(x.value, ast.Constant))]
  if len(b) != 2 or not isinstance(b[0], ast.If) or b[0].orelse or len(b[0].body) != 1 or not isinstance(b[0].body[0], ast.Return) or not isinstance(b[1], ast.Return):
    U(cf, '_cost_fn body')

  def nat(e):
    if isinstance(e, ast.Constant) and isinstance(e.value, int) and not isinstance(e.value, bool) and e.value >= 0:
      return '%d%%nat' % e.value
    if un(e) == 'len(self.cbounds)':
      return '(length cbounds)'
    U(e, 'integer %s' % un(e))
  t = b[0].test
  if not (isinstance(t, ast.Compare) and len(t.ops) == 1 and isinstance(t.ops[0], ast.Eq)):
    U(t, 'test')
  test = '(%s =? %s)%%nat' % (nat(t.left), nat(t.comparators[0]))
  FIELD = {0: 'cb_lo', 1: 'cb_hi', 2: 'cb_s', 3: 'cb_e'}

  def cfield(e, cvar):
    """c[k] / self.cbounds[0][k]"""
    if isinstance(e, ast.Subscript) and isinstance(e.slice, ast.Constant) and e.slice.value in FIELD:
      base = e.value
      if cvar and un(base) == cvar:
        return '(%s %s)' % (FIELD[e.slice.value], cvar), ('S' if e.slice.value < 2 else 'N')
      if isinstance(base, ast.Subscript) and un(base.value) == 'self.cbounds' and isinstance(base.slice, ast.Constant) and isinstance(base.slice.value, int) and base.slice.value >= 0:
        return '(%s (nth %d cbounds (n0, n0, 0%%nat, 0%%nat)))' % (FIELD[e.slice.value], base.slice.value), ('S' if e.slice.value < 2 else 'N')
    U(e, 'cumulative-bound field %s' % un(e))

  def scalar(e, cvar):
    if un(e) == 'self.p_l':
      return 'p_l'
    if un(e) == 'self.p_h':
      return 'p_h'
    t_, ty = cfield(e, cvar)
    if ty != 'S':
      U(e, 'scalar expected')
    return t_

  def fobj(e, cvar):
    """InnerSumFunction(HLQuadraticCost(a, b, c, d))"""
    if isinstance(e, ast.Call) and un(e.func) == 'InnerSumFunction' and len(e.args) == 1 and not e.keywords:
      h = e.args[0]
      if isinstance(h, ast.Call) and un(h.func) == 'HLQuadraticCost' and len(h.args) == 4 and not h.keywords:
        return '(innersum_fobj (sfobj_hl (%s, %s, %s, %s)))' % tuple(scalar(a, cvar) for a in h.args)
    U(e, 'function object %s' % un(e))
  one = fobj(b[0].body[0].value, None)
  r = b[1].value
  if not (isinstance(r, ast.Call) and un(r.func) == 'RangesFunction' and len(r.args) == 1 and isinstance(r.args[0], ast.ListComp) and len(r.args[0].generators) == 1):
    U(b[1], 'RangesFunction')
  g = r.args[0].generators[0]
  if not (isinstance(g.target, ast.Name) and un(g.iter) == 'self.cbounds' and not g.ifs):
    U(g, 'generator')
  c = g.target.id
  el = r.args[0].elt
  if not (isinstance(el, ast.Tuple) and len(el.elts) == 2 and isinstance(el.elts[0], ast.Tuple) and len(el.elts[0].elts) == 2):
    U(el, 'range entry')
  lo, tl = cfield(el.elts[0].elts[0], c)
  hi, th = cfield(el.elts[0].elts[1], c)
  if (tl, th) != ('N', 'N'):
    U(el, 'range limits')
  many = '(ranges_fobj (map (fun %s => ((%s, %s), %s)) cbounds))' % (c, lo, hi, fobj(el.elts[1], c))
  out = {'cost_fn': '(if %s then %s else %s)' % (test, one, many)}
  m = meths.get('cost') or U(node, 'cost')
  bb = [x for x in m.body if not (isinstance(x, ast.Expr) and isinstance(x.value, ast.Constant))]
  if [a.arg for a in m.args.args] != ['self', 's', 'p'] or len(bb) != 1 or un(bb[0]) != 'return self._cost_fn(s) + np.array(s * p).sum()':
    U(m, 'cost')
  out['cost'] = '(f_call (CDevice2_cost_fn p_l p_h cbounds) s + vsum (vmul s p))'
  m = meths.get('deriv') or U(node, 'deriv')
  bb = [x for x in m.body if not (isinstance(x, ast.Expr) and isinstance(x.value, ast.Constant))]
  if [a.arg for a in m.args.args] != ['self', 's', 'p'] or len(bb) != 1 or un(bb[0]) != 'return np.ones(len(self)) * self._cost_fn.deriv(s) + p':
    U(m, 'deriv')
  out['deriv'] = '(vadd (vmul (ones n) (f_deriv (CDevice2_cost_fn p_l p_h cbounds) s)) p)'
  return out


def gen_functions(repo):
  fname = os.path.join(repo, 'device_kit', 'functions.py')
  out = ['(* GENERATED by translator/functions_tx.py from device_kit/functions.py -- do not edit. *)',
         'From Coq Require Import ZArith List Bool Arith.', 'From DK Require Import Num Vec.', 'From DK.Gen Require Import Kernels.', 'From DK.Model Require Import Leaf Fn Dev Tree FnOps.',
         'Import ListNotations.', 'Section GenFunctions.', 'Context {A : Type} `{Num A}.', 'Local Open Scope num_scope.', '']
  try:
    tree = ast.parse(open(fname).read(), fname)
  except (SyntaxError, OSError):
    tree = None
  translated, untranslated = [], []
  for (cls, m, rtype, fallback) in TARGETS:
    mn = {'__call__': 'call'}.get(m, m)
    decl = CLASSES[cls][1]
    head = 'Definition %s_%s %s (x : list A) : %s :=' % (cls, mn, decl, COQTYPE[rtype])
    try:
      if tree is None:
        raise Unsupported('?:Module:cannot parse functions.py')
      try:
        tx = Tx(tree, cls)
      except StopIteration:
        raise Unsupported('?:Module:class %s not found' % cls)
      body = tx.translate(m, rtype)
      translated.append('%s_%s' % (cls, mn))
      out.append('(* functions.py: %s.%s *)' % (cls, m))
    except Unsupported as e:
      body = fallback
      untranslated.append('%s_%s' % (cls, mn))
      out.append('(* functions.py: %s.%s NOT TRANSLATED (%s): alias of the hand-written model, tie falls back to the correspondence *)' % (
          cls, m, str(e).replace('*)', '* )')))
    out.append(head + '\n  ' + body + '.\n')
  # RangesFunction (call and deriv; its block-diagonal hess stays hand-modelled)
  RF = {'call': ('A', 'vsum (map (fun r => f_call (snd r) (slice (fst (fst r)) (snd (fst r)) x)) (combine ranges functions))'),
        'deriv': ('list A', 'flat_map (fun r => f_deriv (snd r) (slice (fst (fst r)) (snd (fst r)) x)) (combine ranges functions)')}
  try:
    if tree is None:
      raise Unsupported('?:Module:cannot parse functions.py')
    rf = tr_ranges(tree)
    err = None
  except Unsupported as e:
    rf, err = {}, str(e).replace('*)', '* )')
  for mn in ('call', 'deriv'):
    if mn in rf:
      translated.append('RangesFunction_%s' % mn)
      out.append('(* functions.py: RangesFunction.%s *)' % {'call': '__call__'}.get(mn, mn))
      body = rf[mn]
    else:
      untranslated.append('RangesFunction_%s' % mn)
      out.append('(* functions.py: RangesFunction.%s NOT TRANSLATED (%s): alias of the hand-written model, tie falls back to the correspondence *)' % ({'call': '__call__'}.get(mn, mn), err))
      body = RF[mn][1]
    out.append('Definition RangesFunction_%s (ranges : list (nat * nat)) (functions : list (fobj A)) (x : list A) : %s :=\n  %s.\n' % (mn, RF[mn][0], body))
  # DemandFunction
  DM = {'call': ('A', 'horner inner_function (vmax x)'), 'deriv': ('list A', 'upd (zeros (length x)) (argmax x) (horner (pderiv inner_function) (vmax x))'),
        'hess': ('list (list A)', 'diag (upd (zeros (length x)) (argmax x) (horner (pderiv (pderiv inner_function)) (vmax x)))')}
  try:
    if tree is None:
      raise Unsupported('?:Module:cannot parse functions.py')
    dm = tr_demand(tree)
    err = None
  except Unsupported as e:
    dm, err = {}, str(e).replace('*)', '* )')
  for mn in ('call', 'deriv', 'hess'):
    if mn in dm:
      translated.append('DemandFunction_%s' % mn)
      out.append('(* functions.py: DemandFunction.%s *)' % {'call': '__call__'}.get(mn, mn))
      body = dm[mn]
    else:
      untranslated.append('DemandFunction_%s' % mn)
      out.append('(* functions.py: DemandFunction.%s NOT TRANSLATED (%s): alias of the hand-written model, tie falls back to the correspondence *)' % ({'call': '__call__'}.get(mn, mn), err))
      body = DM[mn][1]
    out.append('Definition DemandFunction_%s (inner_function : list A) (x : list A) : %s :=\n  %s.\n' % (mn, DM[mn][0], body))
  # CDevice2 (device_kit/cdevice2.py): a preference object assembled from the classes above
  out.append('(* an object is its class: the methods of an InnerSumFunction / a RangesFunction object are the generated methods of the class *)')
  out.append('Definition innersum_fobj (o : sfobj A) : fobj A :=\n  {| f_call := InnerSumFunction_call o; f_deriv := InnerSumFunction_deriv o; f_hess := InnerSumFunction_hess o |}.')
  out.append('Definition ranges_fobj (rf : list (nat * nat * fobj A)) : fobj A :=\n  {| f_call := RangesFunction_call (map fst rf) (map snd rf); f_deriv := RangesFunction_deriv (map fst rf) (map snd rf);\n     f_hess := fun x => mconst (length x) (length x) n0 (* RangesFunction.hess is not translated *) |}.\n')
  C2 = {'cost_fn': ('(p_l p_h : A) (cbounds : list (cbound A)) : fobj A',
                    'match cbounds with [c] => innersum_fobj (sfobj_hl (p_l, p_h, cb_lo c, cb_hi c)) | _ => ranges_fobj (map (fun c => ((cb_s c, cb_e c), innersum_fobj (sfobj_hl (p_l, p_h, cb_lo c, cb_hi c)))) cbounds) end'),
        'cost': ('(n : nat) (p_l p_h : A) (cbounds : list (cbound A)) (s p : list A) : A', 'cdev2_cost p_l p_h cbounds s p'),
        'deriv': ('(n : nat) (p_l p_h : A) (cbounds : list (cbound A)) (s p : list A) : list A', 'cdev2_deriv p_l p_h cbounds s p')}
  try:
    c2 = tr_cdevice2(repo)
    err = None
  except (Unsupported, SyntaxError, OSError) as e:
    c2, err = {}, str(e).replace('*)', '* )')
  for mn in ('cost_fn', 'cost', 'deriv'):
    if mn in c2:
      translated.append('CDevice2_%s' % mn)
      out.append('(* cdevice2.py: CDevice2.%s *)' % {'cost_fn': '_cost_fn'}.get(mn, mn))
      body = c2[mn]
    else:
      untranslated.append('CDevice2_%s' % mn)
      out.append('(* cdevice2.py: CDevice2.%s NOT TRANSLATED (%s): alias of the hand-written model, tie falls back to the correspondence *)' % ({'cost_fn': '_cost_fn'}.get(mn, mn), err))
      body = C2[mn][1]
    out.append('Definition CDevice2_%s %s :=\n  %s.\n' % (mn, C2[mn][0], body))
  # ADevice (device_kit/adevice.py): the device whose preference is a function object
  AD = {'cost': ('A', 'f_call f s + dot s p'), 'deriv': ('list A', 'vadd (f_deriv f s) p'), 'hess': ('list (list A)', 'f_hess f s')}
  try:
    ad = tr_adevice(repo)
    err = None
  except (Unsupported, SyntaxError, OSError) as e:
    ad, err = {}, str(e).replace('*)', '* )')
  for mn in ('cost', 'deriv', 'hess'):
    if mn in ad:
      translated.append('ADevice_%s' % mn)
      out.append('(* adevice.py: ADevice.%s *)' % mn)
      body = ad[mn]
    else:
      untranslated.append('ADevice_%s' % mn)
      out.append('(* adevice.py: ADevice.%s NOT TRANSLATED (%s): alias of the hand-written model, tie falls back to the correspondence *)' % (mn, err))
      body = AD[mn][1]
    out.append('Definition ADevice_%s (f : fobj A) (s p : list A) : %s :=\n  %s.\n' % (mn, AD[mn][0], body))
  out.append('End GenFunctions.')
  out.append('From Coq Require Import String.')
  out.append('Definition functions_translated : list String.string := [%s]%%string.' % '; '.join('"%s"' % x for x in translated))
  out.append('Definition functions_untranslated : list String.string := [%s]%%string.' % '; '.join('"%s"' % x for x in untranslated))
  return '\n'.join(out) + '\n'


if __name__ == '__main__':
  import sys
  print(gen_functions(sys.argv[1] if len(sys.argv) > 1 else '/repo'))
