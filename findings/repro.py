#!/venv/bin/python
"""Reproductions of the genuine defects found on the pinned tree (commit 1d999c3), one function each.
Each returns a string describing the failure when the defect manifests on the *current* /repo, or None.
  /venv/bin/python /verif/findings/repro.py            run all
  /venv/bin/python /verif/findings/repro.py name ...   run some
These are documentation for known_findings.json; the checks themselves do not depend on this file.
"""
import sys
import warnings
sys.path.insert(0, '/repo')
warnings.simplefilter('ignore')
import numpy as np
from device_kit import *
from device_kit.functions import *


def numgrad(f, x, h=2.0**-20):
  g = np.zeros(len(x))
  for k in range(len(x)):
    e = np.zeros(len(x)); e[k] = h
    g[k] = (f(x + e) - f(x - e)) / (2 * h)
  return g


def numhess(f, x, h=2.0**-10):
  n = len(x)
  H = np.zeros((n, n))
  for j in range(n):
    for k in range(n):
      ej = np.zeros(n); ej[j] = h
      ek = np.zeros(n); ek[k] = h
      H[j, k] = (f(x + ej + ek) - f(x + ej - ek) - f(x - ej + ek) + f(x - ej - ek)) / (4 * h * h)
  return H


def abc_chain_deriv():
  d = IDevice('i', 3, (0, 2), a=.2, b=3, c=2)
  s = np.array([.5, 1., 1.5]); p = np.zeros(3)
  g, a = numgrad(lambda x: d.cost(x, p), s), d.deriv(s, p)
  return None if np.allclose(g, a, atol=1e-5) else 'IDevice(a=.2,b=3,c=2,(0,2)) deriv=%s numeric=%s' % (a, g)


def abc_chain_hess():
  d = IDevice('i', 3, (0, 2), a=.2, b=3, c=2)
  s = np.array([.5, 1., 1.5])
  H, a = numhess(lambda x: d.cost(x, 0), s), d.hess(s)
  return None if np.allclose(H, a, atol=1e-4) else 'IDevice hess diag=%s numeric diag=%s' % (np.diag(a), np.diag(H))


def sdevice_flip_deriv():
  d = SDevice('s', 3, (-2, 2), c1=1, c2=.5, capacity=10, start=.5)
  s = np.array([.5, -1., 1.5]); p = np.zeros(3)
  g, a = numgrad(lambda x: d.cost(x, p), s), d.deriv(s, p)
  return None if np.allclose(g, a, atol=1e-5) else 'SDevice c2=.5 deriv=%s numeric=%s' % (a, g)


def sdevice_deep_deriv():
  d = SDevice('s', 3, (-2, 2), c1=1, c3=1, capacity=10, start=.5, damage_depth=.9, efficiency=.5, sustainment=.5)
  s = np.array([.5, -1., 1.5]); p = np.zeros(3)
  g, a = numgrad(lambda x: d.cost(x, p), s), d.deriv(s, p)
  return None if np.allclose(g, a, atol=1e-5) else 'SDevice c3=1 eff=.5 sus=.5 deriv=%s numeric=%s' % (a, g)


def tdevice_len():
  try:
    d = TDevice('t', 3, (0, 2), sustainment=.5, efficiency=2, t_init=10, t_optimal=20, t_range=4, t_external=[10, 12, 8])
    d.deriv(np.array([.5, 1., 1.5]), np.zeros(3))
  except Exception as e:
    return 'TDevice length 3 deriv raises %s: %s' % (type(e).__name__, e)


def tdevice_grad():
  n = 24
  d = TDevice('t', n, (0, 2), sustainment=.5, efficiency=2, t_init=10, t_optimal=20, t_range=4, t_external=[10]*n)
  s = np.linspace(.25, 1.75, n); p = np.zeros(n)
  g, a = numgrad(lambda x: d.cost(x, p), s), d.deriv(s, p)
  return None if np.allclose(g, a, atol=1e-4) else 'TDevice deriv/numeric ratio %s' % (a[:3] / g[:3],)


def cbounds_multirange():
  d = Device('d', 4, (0, 3), cbounds=[(1, 2, 0, 2), (3, 5, 2, 4)])
  x = np.array([0., 0., 2., 2.])   # range [0,2) sums to 0 < 1: infeasible
  vals = [c['fun'](x) for c in d.constraints]
  return None if min(vals) < 0 else 'Device cbounds [(1,2,0,2),(3,5,2,4)] at (0,0,2,2): all constraint values >= 0: %s' % vals


def solve_multirow():
  ds = DeviceSet('s', [Device('a', 3, (0, 1)), CDevice('b', 3, (0, 1), a=-1)], sbounds=(0, 1.5))
  try:
    x, o = solve(ds, p=np.array([1., 2., 3.]))
  except OptimizationException:
    return None
  except Exception as e:
    return 'multi-row solve raises %s: %s' % (type(e).__name__, str(e)[:80])


def solve_fixed_shape():
  ds = DeviceSet('s', [Device('a', 3, (1, 1)), Device('b', 3, (2, 2))])
  x, o = solve(ds, p=0)
  return None if np.array(x).shape == ds.shape else 'all-fixed solve returns shape %s not %s' % (np.array(x).shape, ds.shape)


def mf_jac_repeat():
  sd = SDevice('b', 3, (0, 2), capacity=10, sustainment=.5)
  mf = MFDeviceSet(sd, ['e', 'h'])
  x = np.array([[.5, .25, 1.], [.25, .5, .5]]).flatten()
  for c in mf.constraints:
    if 'jac' in c:
      g = numgrad(c['fun'], x, 2.0**-12)
      if not np.allclose(g, c['jac'](x), atol=1e-6):
        return 'MFDeviceSet jac %s numeric %s' % (c['jac'](x), g)


def mf_inplace():
  ad = ADevice('a', 3, (0, 2), constraints=[{'type': 'ineq', 'fun': lambda s: s.sum() - 1, 'jac': lambda s: np.ones(3)}])
  mf = MFDeviceSet(ad, ['e', 'h'])
  before = ad.constraints[0]['fun'](np.array([1., 1., 1.]))
  mf.constraints
  try:
    after = ad.constraints[0]['fun'](np.array([1., 1., 1.]))
  except Exception as e:
    return 'reading MFDeviceSet.constraints broke wrapped constraint: %s' % type(e).__name__
  return None if before == after else 'wrapped constraint value changed %s -> %s' % (before, after)


def hl_equal_slopes():
  d = IDevice2('i', 2, (0, 2), p_l=-1, p_h=-1)
  try:
    v = d.cost(np.array([1., 1.]), 0)
  except Exception as e:
    return 'IDevice2(p_l=p_h) cost raises %s' % type(e).__name__
  return None if np.isfinite(v) else 'IDevice2(p_l=p_h) cost = %s' % v


def gdevice_hess_2d():
  d = GDevice('g', 3, (-2, 0), cost_coeffs=[[1, 1, 0]]*3)
  H = np.array(d.hess(np.array([-1., -.5, 0.])))
  return None if H.shape == (3, 3) else 'GDevice 2-D coeffs hess shape %s' % (H.shape,)


def adevice_null():
  d = ADevice('a', 3, (0, 1))
  H = np.array(d.hess(np.ones(3)))
  g = np.array(d.deriv(np.ones(3), 0))
  return None if H.shape == (3, 3) and g.shape == (3,) else 'ADevice default f: deriv shape %s hess shape %s' % (g.shape, H.shape)


def set_project_flat():
  ds = DeviceSet('s', [Device('a', 3, (0, 1)), Device('b', 3, (0, 1))])
  try:
    r = ds.project(np.ones(6) * 2)
  except Exception as e:
    return 'DeviceSet.project(flat) raises %s' % type(e).__name__
  return None if r.shape == (2, 3) else 'shape %s' % (r.shape,)


def mf_hess_flat():
  mf = MFDeviceSet(IDevice2('i', 3, (0, 2)), ['e', 'h'])
  try:
    H = mf.hess(np.ones(6))
  except Exception as e:
    return 'MFDeviceSet.hess(flat) raises %s' % type(e).__name__
  return None if np.array(H).shape == (3, 3) else 'MFDeviceSet.hess(flat) shape %s' % (np.array(H).shape,)


def tbase_negative():
  d = TDevice('t', 1, (0, 2), sustainment=.5, efficiency=2, t_init=0, t_optimal=20, t_range=4, t_external=[-4])
  want = .5 * 0 + .5 * -4
  return None if abs(d.t_base[0] - want) < 1e-12 else 'TDevice t_base for t_ext=[-4], s=.5, t_init=0 is %s, recurrence gives %s' % (d.t_base[0], want)


def cbounds_dropped():
  out = []
  for cls, kw in ((SDevice, {}), (IDevice, {}), (IDevice2, {})):
    d = cls('x', 3, (0, 2), cbounds=(1, 2), **kw)
    if d.cbounds is None:
      out.append(cls.__name__)
  return None if not out else 'cbounds=(1,2) silently dropped by %s' % out


def cdevice2_hess():
  d = CDevice2('c', 3, (0, 2), (1, 5), p_l=-2, p_h=-1)
  s = np.array([.5, 1., 1.5])
  H, a = numhess(lambda x: d.cost(x, 0), s), np.array(d.hess(s))
  return None if np.allclose(H, a, atol=1e-4) else 'CDevice2.hess=%s numeric=%s' % (a.tolist(), np.round(H, 4).tolist())


def tdevice_dict():
  d = TDevice('t', 3, (0, 2), sustainment=.5, efficiency=2, t_init=10, t_optimal=20, t_range=4, t_external=[10, 12, 8], c=3)
  e = TDevice.from_dict(d.to_dict())
  return None if e.c == d.c else 'TDevice round-trip loses c: %s -> %s' % (d.c, e.c)


def window_dict():
  d = WindowDevice('w', 3, (0, 2), w=2, c=3)
  try:
    e = WindowDevice.from_dict(d.to_dict())
  except Exception as ex:
    return 'WindowDevice.from_dict(to_dict()) raises %s' % type(ex).__name__
  return None if (e.w, e.c) == (d.w, d.c) else 'WindowDevice round trip changes params'


def step_ascent():
  d = IDevice2('i', 3, (0, 2), p_l=-2, p_h=0)
  s = np.array([.25, .25, .25]); p = np.zeros(3)
  c0 = d.cost(s, p)
  s1, o = step(d, p, s, stepsize=.5)
  c1 = d.cost(s1, p)
  return None if c1 < c0 - 1e-6 else 'step from clearly sub-optimal start: cost %s -> %s' % (c0, c1)


def loader_storage_clip():
  from device_kit.loaders import builder_loader as bl
  d = {'type': 'storage', 'bounds': {'basis': 3, 'runs': {'0': [-1, 1]}}, 'parameters': {'capacity': 5, 'chargeRateClippingFactor': 2}}
  try:
    dev = bl.load_storage_device(d, 3)
  except Exception as e:
    return 'load_storage_device with clipping factor raises %s' % type(e).__name__


def loader_unsorted_runs():
  from device_kit.loaders import builder_loader as bl
  r = bl.run_to_array({'basis': 4, 'runs': {'0': 1, '3': 3, '1': 2}})
  return None if r.tolist() == [1, 2, 2, 3] else 'run_to_array unsorted keys -> %s, expected [1,2,2,3]' % r.tolist()


def loader_thermal():
  from device_kit.loaders import builder_loader as bl
  d = {'type': 'thermal_load', 'bounds': {'basis': 3, 'runs': {'0': [0, 1]}},
       'parameters': {'desiredTemperature': 20, 'initialTemperature': 10, 'thermalSustainment': .5, 'efficiencyFactor': 2,
                      'externalTemperatureProfile': [10, 10, 10], 'temperatureVariationCareFactor': {'basis': 3, 'runs': {'0': 4}}}}
  try:
    bl.load_thermal_load_device(d, 3)
  except Exception as e:
    return 'load_thermal_load_device raises %s: %s' % (type(e).__name__, str(e)[:60])


def idevice_b_concave():
  try:
    d = IDevice('i', 1, (0, 2), b=.5)
  except ValueError:
    return None
  f = lambda v: d.cost(np.array([v]), 0)
  return None if f(1.) <= (f(0.5) + f(1.5)) / 2 + 1e-12 else 'IDevice(b=.5) accepted and not convex: f(1)=%s > chord %s' % (f(1.), (f(.5) + f(1.5)) / 2)


def sdevice_c1_zero():
  try:
    d = SDevice('s', 2, (-2, 2), c1=0, c2=1)
  except ValueError:
    return None
  f = lambda a, b: d.cost(np.array([a, b]), 0)
  return None if f(0, 0) <= (f(1, 1) + f(-1, -1)) / 2 + 1e-12 else 'SDevice(c1=0,c2=1) accepted and not convex: f(0,0)=%s > chord %s' % (f(0, 0), (f(1, 1) + f(-1, -1)) / 2)


def bounds_three_list():
  try:
    d = Device('d', 3, [0, 1, 2])
  except ValueError:
    return None
  return 'bounds [0,1,2] on length 3 accepted as %s' % d.bounds.tolist()


def bounds_table_len2():
  try:
    d = Device('d', 2, [[0, 1], [0, 1], [0, 1]])
  except ValueError:
    return None
  return 'bounds (3,2) table on length 2 accepted as %s' % d.bounds.tolist()


def tworatio_none():
  try:
    d = TwoRatioMFDeviceSet(Device('d', 2, (0, 1)), ['a', 'b'], None)
  except ValueError:
    return None
  try:
    [c['fun'](np.zeros(4)) for c in d.constraints]
  except Exception as e:
    return 'TwoRatioMFDeviceSet(ratios=None) accepted, constraints raise %s' % type(e).__name__


ALL = [v for k, v in list(globals().items()) if callable(v) and getattr(v, '__module__', None) == '__main__' and k not in ('numgrad', 'numhess')]

if __name__ == '__main__':
  names = sys.argv[1:]
  for f in ALL:
    if names and f.__name__ not in names:
      continue
    try:
      r = f()
    except Exception as e:
      r = 'repro itself raised %s: %s' % (type(e).__name__, e)
    print('%-22s %s' % (f.__name__, 'ok' if r is None else 'DEFECT: ' + r))
